package main

// C08 — compilation is deterministic.
//
// For every corpus program (files of /repo/testsuite and
// /repo/apps/garbled/examples that compile quickly, programs importing several
// packages of /repo/pkg, and generated programs importing generated packages
// with package-level variables arranged in chains, fans and diamonds) the real
// compiler is run
//   * k times in this process with a fresh Compiler and fresh Params each,
//   * again after j unrelated compilations,
//   * several times with ONE reused Compiler instance,
//   * in separate child processes (the harness binary re-executed as
//     `harness c08child spec.json out.json`),
// and the observables sha256(Circuit.Marshal), sha256(Circuit.MarshalBristol),
// sha256(SSA listing written to Params.SSAOut) and the error text are
// compared.  Oracle: any two different observables for the same source and
// parameters are a failure.
//
// Correspondence with Lang/Determ.v: the import graph of the program (Go-side:
// compiler.ParseFile of the program and of the packages' files), the size of
// every package's init block measured in a solo compilation, and the distinct
// init-block sequences observed are given to run_c08, which computes the set
// {listing (compile o p) | o} over all import orders and answers
//   (every observed sequence is in the set, |set| >= #observed,
//    |set| = 1  [only when the program was compiled often enough],
//    the sequence observed with a reused Compiler is the model's second compile).

import (
	"bytes"
	"crypto/sha256"
	"encoding/json"
	"fmt"
	"io"
	"math/big"
	"os"
	"os/exec"
	"path/filepath"
	"reflect"
	"regexp"
	"runtime"
	"runtime/debug"
	"sort"
	"strings"
	"sync"
	"time"

	"github.com/markkurossi/mpc/circuit"
	"github.com/markkurossi/mpc/compiler"
	"github.com/markkurossi/mpc/compiler/utils"
)

func init() {
	register("c08", runC08)
	if len(os.Args) >= 5 && os.Args[1] == "c08child" {
		os.Exit(c08Child(os.Args[2], os.Args[3], os.Args[4]))
	}
}

type c08Prog struct {
	Name    string   `json:"name"`
	File    string   `json:"file,omitempty"`
	Src     string   `json:"src,omitempty"`
	PkgPath []string `json:"pkgpath,omitempty"`
	Kind    string   `json:"kind"`
	GMW     bool     `json:"gmw,omitempty"` // compile for utils.TargetGMW (gates stably sorted by level)
	// SymbolIDs preloads Params.SymbolIDs (what Params.LoadSymbolIDs does from a file)
	SymbolIDs map[string]int `json:"symbol_ids,omitempty"`
	Symbols   []string       `json:"symbols,omitempty"` // intern family: the symbols in program order
	Opts      c08Opts        `json:"opts,omitempty"`
}

// c08Opts: the doors of configuration (utils.Params fields, output writers, entry point).
type c08Opts struct {
	Prune         bool    `json:"prune,omitempty"`   // Params.OptPruneGates (apps/garbled -O 1, the default there)
	Verbose       bool    `json:"verbose,omitempty"` // print-only options: must not change any output
	Diagnostics   bool    `json:"diag,omitempty"`
	ErrLoc        bool    `json:"errloc,omitempty"`
	WarnNone      bool    `json:"wnone,omitempty"`
	NoCirc        bool    `json:"nocirc,omitempty"` // Params.NoCircCompile (-ssa without -circ)
	MultThreshold int     `json:"mult,omitempty"`   // Params.CircMultArrayTreshold
	MaxLoopUnroll int     `json:"unroll,omitempty"`
	AllOuts       bool    `json:"outs,omitempty"`   // CircOut (+CircFormat), CircDotOut, CircSvgOut, SSADotOut, MarshalFormat, AssignLevels
	Format        string  `json:"format,omitempty"` // CircFormat: mpclc | bristol
	ViaStream     bool    `json:"stream,omitempty"` // Compiler.Stream with BenchmarkCompile (front half of the streaming door)
	InputSizes    [][]int `json:"sizes,omitempty"`
	SidsFile      string  `json:"sids,omitempty"` // contents of a symbol-id file: Params.LoadSymbolIDs / SaveSymbolIDs
}

func (o c08Opts) hasPrintOnly() bool { return o.Verbose || o.Diagnostics || o.ErrLoc || o.WarnNone }

func (o c08Opts) printOnlyCleared() c08Opts { // the options with the print-only ones cleared
	o.Verbose, o.Diagnostics, o.ErrLoc, o.WarnNone = false, false, false, false
	return o
}

type c08Outs struct{ circ, dot, svg, ssadot *c08Writer }

var c08Extra sync.Map // *utils.Params -> *c08Outs

type c08Obs struct {
	Circ    string         `json:"circ"`
	Bristol string         `json:"bristol"`
	SSA     string         `json:"ssa"`
	Err     string         `json:"err"`
	SSAText string         `json:"ssa_text,omitempty"` // only in the output of the reuse child
	Eval    string         `json:"eval,omitempty"`     // only in the output of the reuse child
	Mutated []string       `json:"mutated,omitempty"`  // exported Params fields changed by this compilation
	Extra   string         `json:"extra,omitempty"`    // hashes of the further outputs (Opts.AllOuts, SidsFile)
	SymTab  map[string]int `json:"symtab,omitempty"`   // Params.SymbolIDs after the compilation (intern family)
	ssaText string
	circ    *circuit.Circuit
}

func (o c08Obs) key() string {
	return o.Circ + "/" + o.Bristol + "/" + o.SSA + "/" + o.Err + "/" + o.Extra
}

type c08Writer struct{ b *bytes.Buffer }

func (w *c08Writer) Write(p []byte) (int, error) { return w.b.Write(p) }
func (w *c08Writer) Close() error                { return nil }

func c08Repo() string {
	if r := os.Getenv("VERIF_REPO"); r != "" {
		return r
	}
	return "/repo"
}

var c08DevNull *os.File

// c08Quiet runs f with os.Stdout pointing to /dev/null (the compiler logs to os.Stdout).
func c08Quiet(f func()) {
	if c08DevNull == nil {
		c08DevNull, _ = os.OpenFile(os.DevNull, os.O_WRONLY, 0)
	}
	saved := os.Stdout
	if c08DevNull != nil {
		os.Stdout = c08DevNull
	}
	defer func() { os.Stdout = saved }()
	f()
}

func c08Params(p *c08Prog, w *c08Writer) *utils.Params {
	params := utils.NewParams()
	params.PkgPath = append([]string(nil), p.PkgPath...)
	params.SSAOut = w
	if p.GMW {
		params.Target = utils.TargetGMW
	}
	for k, v := range p.SymbolIDs {
		params.SymbolIDs[k] = v
	}
	o := p.Opts
	params.OptPruneGates = o.Prune
	params.Verbose, params.Diagnostics, params.MPCLCErrorLoc = o.Verbose, o.Diagnostics, o.ErrLoc
	if o.WarnNone {
		params.Warn.DisableAll()
	}
	params.NoCircCompile = o.NoCirc
	if o.MultThreshold > 0 {
		params.CircMultArrayTreshold = o.MultThreshold
	}
	if o.MaxLoopUnroll > 0 {
		params.MaxLoopUnroll = o.MaxLoopUnroll
	}
	if o.ViaStream {
		params.BenchmarkCompile = true
	}
	if o.AllOuts {
		x := &c08Outs{&c08Writer{b: new(bytes.Buffer)}, &c08Writer{b: new(bytes.Buffer)}, &c08Writer{b: new(bytes.Buffer)}, &c08Writer{b: new(bytes.Buffer)}}
		params.CircOut, params.CircDotOut, params.CircSvgOut, params.SSADotOut = x.circ, x.dot, x.svg, x.ssadot
		params.CircFormat = o.Format
		if params.CircFormat == "" {
			params.CircFormat = "mpclc"
		}
		c08Extra.Store(params, x)
	}
	if o.SidsFile != "" {
		if f, err := os.CreateTemp("", "c08sids-*.mpcl"); err == nil {
			f.WriteString(o.SidsFile)
			f.Close()
			params.LoadSymbolIDs(f.Name())
			os.Remove(f.Name())
		}
	}
	return params
}

func c08Hash(b []byte) string {
	h := sha256.Sum256(b)
	return fmt.Sprintf("%x", h[:])
}

// c08CompileWith compiles p with the compiler cc (whose Params write SSA to w).
func c08CompileWith(cc *compiler.Compiler, params *utils.Params, w *c08Writer, p *c08Prog) (obs c08Obs) {
	before := c08ParamsSnapshot(params)
	defer func() {
		after := c08ParamsSnapshot(params)
		for f, v := range before {
			if after[f] != v {
				obs.Mutated = append(obs.Mutated, f)
			}
		}
		sort.Strings(obs.Mutated)
		if p.Kind == "intern" && params != nil {
			obs.SymTab = map[string]int{}
			for k, v := range params.SymbolIDs {
				obs.SymTab[k] = v
			}
		}
	}()
	w.b = new(bytes.Buffer)
	quiet := c08Quiet
	if c08NoQuiet {
		// concurrent family: os.Stdout is redirected once around all goroutines
		quiet = func(f func()) { f() }
	}
	quiet(func() {
		defer func() {
			if r := recover(); r != nil {
				obs.Err = fmt.Sprintf("panic: %v", r)
			}
		}()
		var err error
		var circ *circuit.Circuit
		var outs *c08Outs
		if x, ok := c08Extra.Load(params); ok {
			outs = x.(*c08Outs)
			for _, wr := range []*c08Writer{outs.circ, outs.dot, outs.svg, outs.ssadot} {
				wr.b = new(bytes.Buffer)
			}
		}
		sizes := p.Opts.InputSizes
		switch {
		case p.Opts.ViaStream && p.File != "":
			_, _, err = cc.StreamFile(nil, nil, p.File, nil, sizes)
		case p.Opts.ViaStream:
			_, _, err = cc.Stream(nil, nil, "{data}", strings.NewReader(p.Src), nil, sizes)
		case p.File != "":
			circ, _, err = cc.CompileFile(p.File, sizes)
		default:
			circ, _, err = cc.Compile(p.Src, sizes)
		}
		defer func() {
			// further outputs: the writers of Params, MarshalFormat, Marshal twice, AssignLevels
			// (apps/garbled loadCircuit), the saved symbol-id file
			h := sha256.New()
			if outs != nil && err == nil {
				for _, wr := range []*c08Writer{outs.circ, outs.dot, outs.svg, outs.ssadot} {
					fmt.Fprintf(h, "%d:", wr.b.Len())
					h.Write(wr.b.Bytes())
				}
				if circ != nil {
					var m1, m2, m3 bytes.Buffer
					circ.MarshalFormat(&m1, params.CircFormat)
					circ.Marshal(&m2)
					if !bytes.Equal(m1.Bytes(), outs.circ.b.Bytes()) {
						obs.Err += "CircOut differs from MarshalFormat; "
					}
					circ.AssignLevels(params.Target)
					circ.Marshal(&m3)
					h.Write(m2.Bytes())
					h.Write(m3.Bytes())
				}
				obs.Extra = fmt.Sprintf("%x", h.Sum(nil)[:12])
			}
			if p.Opts.SidsFile != "" && params != nil {
				if f, e := os.CreateTemp("", "c08sids-out-*.mpcl"); e == nil {
					f.Close()
					params.SaveSymbolIDs("main", f.Name())
					b, _ := os.ReadFile(f.Name())
					os.Remove(f.Name())
					obs.Extra += "/sids:" + c08Hash(b)[:12]
				}
			}
		}()
		if err == nil && circ != nil {
			var mb, bb bytes.Buffer
			if e2 := circ.Marshal(&mb); e2 != nil {
				obs.Err = "marshal: " + e2.Error()
			}
			if e2 := circ.MarshalBristol(&bb); e2 != nil {
				obs.Err += "bristol: " + e2.Error()
			}
			obs.Circ, obs.Bristol = c08Hash(mb.Bytes()), c08Hash(bb.Bytes())
			obs.circ = circ
		}
		if err != nil {
			obs.Err = "error: " + err.Error()
		}
	})
	obs.ssaText = w.b.String()
	obs.SSA = c08Hash(w.b.Bytes())
	return obs
}

// c08Eval evaluates a compiled circuit on the fixed inputs 3, 5, 7, ... (one per flattened argument).
func c08Eval(c *circuit.Circuit) string {
	if c == nil {
		return "no circuit"
	}
	n := 0
	for _, io := range c.Inputs {
		if len(io.Compound) > 0 {
			n += len(io.Compound)
		} else {
			n++
		}
	}
	var in []*big.Int
	for i := 0; i < n; i++ {
		in = append(in, big.NewInt(int64(3+2*i)))
	}
	res := ""
	func() {
		defer func() {
			if r := recover(); r != nil {
				res = fmt.Sprintf("panic: %v", r)
			}
		}()
		out, err := c.Compute(in)
		if err != nil {
			res = "error: " + err.Error()
			return
		}
		var parts []string
		for _, o := range out {
			parts = append(parts, o.String())
		}
		res = strings.Join(parts, ",")
	}()
	return res
}

var c08InstanceRe = regexp.MustCompile(`#[0-9]+:`)

// c08SameUpToInstanceNumbers: the listings differ only in the "#N" instance suffix of block labels.
func c08SameUpToInstanceNumbers(a, b string) bool {
	norm := func(s string) string {
		var out []string
		for _, ln := range strings.Split(s, "\n") {
			if strings.HasPrefix(ln, "# ") {
				ln = c08InstanceRe.ReplaceAllString(ln, "#N:")
			}
			out = append(out, ln)
		}
		return strings.Join(out, "\n")
	}
	return a != b && norm(a) == norm(b)
}

var c08FuncLabelRe = regexp.MustCompile(`^# ([A-Za-z0-9_]+)#([0-9]+):$`)

// c08Instances extracts the function block labels "name#k" (not "name.ret#k") in order.
func c08Instances(ssa string) (names []string, nums []int) {
	for _, ln := range strings.Split(ssa, "\n") {
		if m := c08FuncLabelRe.FindStringSubmatch(ln); m != nil {
			var k int
			fmt.Sscanf(m[2], "%d", &k)
			names = append(names, m[1])
			nums = append(nums, k)
		}
	}
	return
}

// c08Compile: fresh Compiler, fresh Params.
func c08Compile(p *c08Prog) c08Obs {
	w := &c08Writer{}
	params := c08Params(p, w)
	return c08CompileWith(compiler.New(params), params, w, p)
}

// ---------------------------------------------------------------- child process

// c08ReuseRun: three compilations of p with ONE Compiler instance.
func c08ReuseRun(p *c08Prog) []c08Obs {
	w := &c08Writer{}
	params := c08Params(p, w)
	cc := compiler.New(params)
	var out []c08Obs
	for i := 0; i < 3; i++ {
		o := c08CompileWith(cc, params, w, p)
		o.SSAText = o.ssaText
		if o.Err == "" {
			o.Eval = c08Eval(o.circ)
		}
		out = append(out, o)
	}
	return out
}

// c08Child: `harness c08child fresh|reuse spec.json out`.
//
//	fresh: compile every program once with a fresh Compiler, write the list of observations.
//	reuse: for every program run c08ReuseRun and append one JSON line {"i":..,"obs":[..]} to out
//	       (flushed per program, so that a fatal runtime error is attributable to the next program).
func c08Child(mode, spec, out string) int {
	b, err := os.ReadFile(spec)
	if err != nil {
		fmt.Fprintln(os.Stderr, err)
		return 2
	}
	var progs []c08Prog
	if err := json.Unmarshal(b, &progs); err != nil {
		fmt.Fprintln(os.Stderr, err)
		return 2
	}
	if mode == "reuse" {
		debug.SetMaxStack(256 << 20) // fail fast on runaway recursion
		f, err := os.OpenFile(out, os.O_CREATE|os.O_WRONLY|os.O_APPEND, 0o644)
		if err != nil {
			fmt.Fprintln(os.Stderr, err)
			return 2
		}
		defer f.Close()
		start := 0
		if v := os.Getenv("C08_REUSE_START"); v != "" {
			fmt.Sscanf(v, "%d", &start)
		}
		for i := start; i < len(progs); i++ {
			line, _ := json.Marshal(map[string]interface{}{"i": i, "obs": c08ReuseRun(&progs[i])})
			f.Write(append(line, '\n'))
			f.Sync()
		}
		return 0
	}
	res := make([]c08Obs, len(progs))
	for i := range progs {
		res[i] = c08Compile(&progs[i])
	}
	ob, _ := json.Marshal(res)
	if err := os.WriteFile(out, ob, 0o644); err != nil {
		fmt.Fprintln(os.Stderr, err)
		return 2
	}
	return 0
}

// ---------------------------------------------------------------- import graphs

type c08Pkg struct {
	Alias   string
	Path    string            // import path ("" for main)
	Imports []string          // aliases, sorted
	Targets map[string]string // alias -> import path
	NLines  int               // instructions of the package's init block (solo compilation)
	NAnon   int               // anonymous values defined there
}

// The compiler's package table is keyed by alias, the package directory by import path: two
// different paths may share an alias (base name).  Pkgs is keyed by path ("" = main).
type c08Graph struct {
	Pkgs  map[string]*c08Pkg
	Order []string // distinct aliases sorted; "main" included
	Paths []string // paths sorted; "" (main) first
}

func (g *c08Graph) pathID(path string) int {
	for i, a := range g.Paths {
		if a == path {
			return i + 1
		}
	}
	return 0
}

// clashes: number of aliases bound to more than one path
func (g *c08Graph) clashes() int {
	byAlias := map[string]map[string]bool{}
	for _, p := range g.Pkgs {
		if byAlias[p.Alias] == nil {
			byAlias[p.Alias] = map[string]bool{}
		}
		byAlias[p.Alias][p.Path] = true
	}
	n := 0
	for _, m := range byAlias {
		if len(m) > 1 {
			n++
		}
	}
	return n
}

func (g *c08Graph) id(alias string) int {
	for i, a := range g.Order {
		if a == alias {
			return i + 1
		}
	}
	return 0
}

func (g *c08Graph) maxFan() int {
	m := 0
	for _, p := range g.Pkgs {
		if len(p.Imports) > m {
			m = len(p.Imports)
		}
	}
	return m
}

// orders = product of the factorials of the import counts
func (g *c08Graph) orders() int {
	n := 1
	for _, p := range g.Pkgs {
		for i := 2; i <= len(p.Imports); i++ {
			n *= i
			if n > 1<<20 {
				return n
			}
		}
	}
	return n
}

func c08PkgDir(path string, pkgPath []string) string {
	dirs := append([]string{filepath.Join(c08Repo(), "pkg")}, pkgPath...)
	for _, d := range dirs {
		p := filepath.Join(d, path)
		if fi, err := os.Stat(p); err == nil && fi.IsDir() {
			return p
		}
	}
	return ""
}

// c08Imports parses an MPCL file with the compiler's own parser and returns alias -> path.
func c08Imports(file string, pkgPath []string) (map[string]string, error) {
	params := utils.NewParams()
	params.PkgPath = pkgPath
	var imports map[string]string
	var err error
	c08Quiet(func() {
		defer func() {
			if r := recover(); r != nil {
				err = fmt.Errorf("panic: %v", r)
			}
		}()
		pkg, e := compiler.New(params).ParseFile(file)
		if e != nil {
			err = e
			return
		}
		imports = map[string]string{}
		for a, n := range pkg.Imports {
			imports[a] = n
		}
	})
	return imports, err
}

func (c *c08State) graphOf(p *c08Prog) (*c08Graph, error) {
	file := p.File
	if file == "" {
		file = filepath.Join(c.tmp, "graph-main.mpcl")
		if err := os.WriteFile(file, []byte(p.Src), 0o644); err != nil {
			return nil, err
		}
	}
	g := &c08Graph{Pkgs: map[string]*c08Pkg{}}
	imps, err := c08Imports(file, p.PkgPath)
	if err != nil {
		return nil, err
	}
	mainPkg := &c08Pkg{Alias: "main", Targets: map[string]string{}}
	g.Pkgs[""] = mainPkg
	type todo struct{ alias, path string }
	var work []todo
	add := func(pk *c08Pkg, imps map[string]string) {
		for a, n := range imps {
			if _, dup := pk.Targets[a]; !dup {
				pk.Imports = append(pk.Imports, a)
			}
			pk.Targets[a] = n
			work = append(work, todo{a, n})
		}
		sort.Strings(pk.Imports)
	}
	add(mainPkg, imps)
	for len(work) > 0 {
		t := work[len(work)-1]
		work = work[:len(work)-1]
		if _, ok := g.Pkgs[t.path]; ok {
			continue
		}
		pk := &c08Pkg{Alias: t.alias, Path: t.path, Targets: map[string]string{}}
		g.Pkgs[t.path] = pk
		dir := c08PkgDir(t.path, p.PkgPath)
		if dir == "" {
			return nil, fmt.Errorf("package %s not found", t.path)
		}
		ents, _ := os.ReadDir(dir)
		for _, e := range ents {
			if !compiler.IsFilename(e.Name()) {
				continue
			}
			im, err := c08Imports(filepath.Join(dir, e.Name()), p.PkgPath)
			if err != nil {
				return nil, err
			}
			add(pk, im)
		}
	}
	seenAlias := map[string]bool{}
	for path, pk := range g.Pkgs {
		g.Paths = append(g.Paths, path)
		if !seenAlias[pk.Alias] {
			seenAlias[pk.Alias] = true
			g.Order = append(g.Order, pk.Alias)
		}
	}
	sort.Strings(g.Order)
	sort.Strings(g.Paths)
	// solo measurements
	for _, path := range g.Paths {
		if path == "" {
			continue
		}
		pk := g.Pkgs[path]
		st, err := c.solo(pk.Alias, pk.Path, p.PkgPath)
		if err != nil {
			return nil, err
		}
		pk.NLines, pk.NAnon = st[0], st[1]
	}
	return g, nil
}

var c08LabelRe = regexp.MustCompile(`^# \.([A-Za-z0-9_]+):$`)
var c08AnonRe = regexp.MustCompile(`^%_\{0,([0-9]+)\}`)

type c08Block struct {
	Alias    string
	NLines   int
	AnonBase int // 1 + smallest anonymous-value version defined in the block, 0 when none
	NAnon    int
}

// c08Blocks extracts the package init blocks (everything before main's first block).
func c08Blocks(ssa string) []c08Block {
	var out []c08Block
	var cur *c08Block
	seen := map[string]bool{}
	for _, ln := range strings.Split(ssa, "\n") {
		if strings.HasPrefix(ln, "# Input") || strings.HasPrefix(ln, "# Output") {
			continue
		}
		if strings.HasPrefix(ln, "# ") {
			if m := c08LabelRe.FindStringSubmatch(ln); m != nil {
				out = append(out, c08Block{Alias: m[1]})
				cur = &out[len(out)-1]
				seen = map[string]bool{}
				continue
			}
			break // first label of main
		}
		if cur == nil || strings.TrimSpace(ln) == "" {
			continue
		}
		cur.NLines++
		f := strings.Fields(ln)
		if len(f) >= 2 && f[0] != "gc" && f[0] != "ret" {
			if m := c08AnonRe.FindStringSubmatch(f[len(f)-1]); m != nil && !seen[m[1]] {
				seen[m[1]] = true
				var v int
				fmt.Sscanf(m[1], "%d", &v)
				if cur.AnonBase == 0 || v+1 < cur.AnonBase {
					cur.AnonBase = v + 1
				}
				cur.NAnon++
			}
		}
	}
	return out
}

// solo: size of the init block of one package, measured by compiling a
// program that imports only that package.
func (c *c08State) solo(alias, path string, pkgPath []string) ([2]int, error) {
	key := path + "|" + strings.Join(pkgPath, ":")
	if v, ok := c.soloCache[key]; ok {
		return v, nil
	}
	p := &c08Prog{Name: "solo:" + path, PkgPath: pkgPath,
		Src: "package main\n\nimport (\n\t\"" + path + "\"\n)\n\nfunc main(a, b uint8) uint8 {\n\treturn a + b\n}\n"}
	o := c08Compile(p)
	if o.Err != "" {
		return [2]int{}, fmt.Errorf("solo compile of %s: %s", path, o.Err)
	}
	var v [2]int
	for _, b := range c08Blocks(o.ssaText) {
		if b.Alias == alias {
			v = [2]int{b.NLines, b.NAnon}
		}
	}
	c.soloCache[key] = v
	return v, nil
}

// ---------------------------------------------------------------- corpus

type c08State struct {
	c         *Ctx
	tmp       string
	soloCache map[string][2]int
}

var c08Preamble = "package main\n\n"

// generated packages with package-level variables, constants and types.
// shape: edges[i] = aliases imported by package i; package 0 is main.
func (c *c08State) genProgram(rng *RNG, idx int) (*c08Prog, error) {
	dir := filepath.Join(c.tmp, fmt.Sprintf("gen%03d", idx))
	npk := rng.Range(2, 5)
	names := make([]string, npk)
	perm := []string{"alpha", "bravo", "charlie", "delta", "echo", "foxtrot", "golf", "hotel"}
	// shuffle the name pool so that alias order and dependency order are unrelated
	for i := len(perm) - 1; i > 0; i-- {
		j := rng.Intn(i + 1)
		perm[i], perm[j] = perm[j], perm[i]
	}
	for i := range names {
		names[i] = fmt.Sprintf("%s%d", perm[i], idx)
	}
	// package i may import packages j > i (acyclic)
	edges := make([][]int, npk)
	shape := []string{"fan", "chain", "diamond", "random"}[rng.Intn(4)]
	var mainImports []int
	switch shape {
	case "fan":
		for i := 0; i < npk; i++ {
			mainImports = append(mainImports, i)
		}
	case "chain":
		mainImports = []int{0}
		for i := 0; i+1 < npk; i++ {
			edges[i] = []int{i + 1}
		}
	case "diamond":
		if npk < 3 {
			npk = 3
			names = append(names, fmt.Sprintf("%s%d", perm[2], idx))
			edges = make([][]int, npk)
		}
		mainImports = []int{0, 1}
		edges[0] = []int{npk - 1}
		edges[1] = []int{npk - 1}
		for i := 2; i < npk-1; i++ {
			edges[rng.Intn(2)] = append(edges[rng.Intn(2)], i)
		}
	default:
		for i := 0; i < npk; i++ {
			if i == 0 || rng.Intn(3) > 0 {
				mainImports = append(mainImports, i)
			}
			for j := i + 1; j < npk; j++ {
				if rng.Intn(3) == 0 {
					edges[i] = append(edges[i], j)
				}
			}
		}
	}
	// every package must be reachable; add unreachable ones to main
	reach := map[int]bool{}
	var dfs func(i int)
	dfs = func(i int) {
		if reach[i] {
			return
		}
		reach[i] = true
		for _, j := range edges[i] {
			dfs(j)
		}
	}
	for _, i := range mainImports {
		dfs(i)
	}
	for i := 0; i < npk; i++ {
		if !reach[i] {
			mainImports = append(mainImports, i)
			dfs(i)
		}
	}
	uses := ""
	varUse := make([]string, npk) // an expression of type uint8 reading the package's first variable
	for i := 0; i < npk; i++ {
		var sb strings.Builder
		sb.WriteString("// -*- go -*-\n\npackage " + names[i] + "\n\n")
		ded := map[int]bool{}
		var imps []int
		for _, j := range edges[i] {
			if !ded[j] {
				ded[j] = true
				imps = append(imps, j)
			}
		}
		edges[i] = imps
		if len(imps) > 0 {
			sb.WriteString("import (\n")
			for _, j := range imps {
				sb.WriteString("\t\"" + names[j] + "\"\n")
			}
			sb.WriteString(")\n\n")
		}
		nv := rng.Intn(4) // 0..3 variables; 0 = package without init block
		if rng.Intn(3) == 0 {
			sb.WriteString(fmt.Sprintf("const K%d = %d\n\n", i, rng.Range(1, 200)))
		}
		if rng.Intn(3) == 0 {
			sb.WriteString(fmt.Sprintf("type T%d struct {\n\tx uint8\n\ty uint16\n}\n\n", i))
		}
		for v := 0; v < nv; v++ {
			kind := rng.Intn(3)
			if v == 0 {
				switch kind {
				case 0:
					varUse[i] = fmt.Sprintf("%s.V%d_0[1]", names[i], i)
				case 1:
					varUse[i] = fmt.Sprintf("uint8(%s.V%d_0[2])", names[i], i)
				default:
					varUse[i] = fmt.Sprintf("%s.V%d_0", names[i], i)
				}
			}
			switch kind {
			case 0:
				sb.WriteString(fmt.Sprintf("var V%d_%d = []byte{%d, %d, %d, %d}\n", i, v, rng.Intn(256), rng.Intn(256), rng.Intn(256), rng.Intn(256)))
			case 1:
				sb.WriteString(fmt.Sprintf("var V%d_%d = [3]uint16{%d, %d, %d}\n", i, v, rng.Intn(65536), rng.Intn(65536), rng.Intn(65536)))
			default:
				sb.WriteString(fmt.Sprintf("var V%d_%d uint8 = %d\n", i, v, rng.Intn(256)))
			}
		}
		sb.WriteString(fmt.Sprintf("\nfunc F%d(a uint8) uint8 {\n\treturn a + %d\n}\n", i, rng.Range(1, 100)))
		// the packages are spread over two library directories (Params.PkgPath with several
		// entries); the second root also holds a decoy copy of some packages of the first root
		// (the first directory that has the package wins)
		root := dir
		if i%2 == 1 {
			root = dir + "-b"
		} else if i%4 == 0 {
			decoy := filepath.Join(dir+"-b", names[i])
			os.MkdirAll(decoy, 0o755)
			os.WriteFile(filepath.Join(decoy, names[i]+".mpcl"), []byte("// -*- go -*-\n\npackage "+names[i]+"\n\nvar Decoy = []byte{9, 9, 9}\n\nfunc F"+fmt.Sprint(i)+"(a uint8) uint8 {\n\treturn a + 200\n}\n"), 0o644)
		}
		pd := filepath.Join(root, names[i])
		if err := os.MkdirAll(pd, 0o755); err != nil {
			return nil, err
		}
		if err := os.WriteFile(filepath.Join(pd, names[i]+".mpcl"), []byte(sb.String()), 0o644); err != nil {
			return nil, err
		}
	}
	var sb strings.Builder
	sb.WriteString("package main\n\nimport (\n")
	ded := map[int]bool{}
	for _, i := range mainImports {
		if ded[i] {
			continue
		}
		ded[i] = true
		sb.WriteString("\t\"" + names[i] + "\"\n")
		uses += fmt.Sprintf("\tr = %s.F%d(r)\n", names[i], i)
		if varUse[i] != "" {
			uses += fmt.Sprintf("\tr = r + %s\n", varUse[i])
		}
	}
	// instantiate some functions more than once (function instance numbers #0, #1, ...)
	for _, i := range mainImports {
		if rng.Intn(2) == 0 {
			uses += fmt.Sprintf("\tr = %s.F%d(r)\n", names[i], i)
		}
	}
	sb.WriteString(")\n\nfunc main(a, b uint8) uint8 {\n\tr := a + b\n" + uses + "\treturn r\n}\n")
	return &c08Prog{Name: fmt.Sprintf("gen%03d-%s-%d", idx, shape, npk), Src: sb.String(), PkgPath: []string{dir, dir + "-b"}, Kind: "generated", GMW: idx%6 == 5}, nil
}

// genClashProgram: a package tree in which two DIFFERENT import paths share their base name (alias).
// The compiler's package table is keyed by alias, so the path that is parsed first owns the alias
// for the whole program; with the imports parsed in sorted alias order that is a function of the
// source.  The clashing packages differ in the number of package variables (visible in the init
// block) and in the constant their Mix function adds (visible in the circuit).
//
//	shape 0: main imports d1/c and m;   m imports d2/c          (main and m call c.Mix)
//	shape 1: main imports m1 and m2;    m1 imports d1/c, m2 imports d2/c
func (c *c08State) genClashProgram(rng *RNG, idx int) (*c08Prog, error) {
	root := filepath.Join(c.tmp, fmt.Sprintf("clash%03d", idx))
	pick := func(pool []string) string { return pool[rng.Intn(len(pool))] }
	cn := pick([]string{"codec", "util", "conv", "mixer"})
	dirs := []string{"lib", "legacy", "alt", "vendor", "old"}
	i1 := rng.Intn(len(dirs))
	i2 := (i1 + 1 + rng.Intn(len(dirs)-1)) % len(dirs)
	d1, d2 := dirs[i1], dirs[i2]
	mids := []string{"adapter", "bridge", "proto", "zeta", "wrap"}
	j1 := rng.Intn(len(mids))
	j2 := (j1 + 1 + rng.Intn(len(mids)-1)) % len(mids)
	m1, m2 := mids[j1], mids[j2]
	shape := idx % 2
	write := func(rel, name, body string) error {
		dir := filepath.Join(root, rel)
		if err := os.MkdirAll(dir, 0o755); err != nil {
			return err
		}
		return os.WriteFile(filepath.Join(dir, name+".mpcl"), []byte(body), 0o644)
	}
	clashPkg := func(nvars, k int) string {
		var sb strings.Builder
		sb.WriteString("// -*- go -*-\n\npackage " + cn + "\n\n")
		for v := 0; v < nvars; v++ {
			sb.WriteString(fmt.Sprintf("var T%d = []byte{%d, %d, %d}\n", v, k+v, k+v+1, k+v+2))
		}
		sb.WriteString(fmt.Sprintf("\nfunc Mix(a uint8) uint8 {\n\treturn a + T0[1] + %d\n}\n", k))
		return sb.String()
	}
	nv1 := rng.Range(1, 2)
	nv2 := nv1 + rng.Range(1, 2)
	if rng.Bool() {
		nv1, nv2 = nv2, nv1
	}
	if err := write(filepath.Join(d1, cn), cn, clashPkg(nv1, rng.Range(1, 40))); err != nil {
		return nil, err
	}
	if err := write(filepath.Join(d2, cn), cn, clashPkg(nv2, rng.Range(50, 90))); err != nil {
		return nil, err
	}
	midPkg := func(name, imp string, withVar bool) string {
		var sb strings.Builder
		sb.WriteString("// -*- go -*-\n\npackage " + name + "\n\nimport (\n\t\"" + imp + "\"\n)\n\n")
		if withVar {
			sb.WriteString(fmt.Sprintf("var W = []byte{%d, %d}\n\n", rng.Intn(200), rng.Intn(200)))
		}
		sb.WriteString("func Wrap(a uint8) uint8 {\n\treturn " + cn + ".Mix(a) + 1\n}\n")
		return sb.String()
	}
	var src strings.Builder
	src.WriteString("package main\n\nimport (\n")
	if shape == 0 {
		if err := write(m1, m1, midPkg(m1, d2+"/"+cn, rng.Bool())); err != nil {
			return nil, err
		}
		src.WriteString("\t\"" + d1 + "/" + cn + "\"\n\t\"" + m1 + "\"\n)\n\nfunc main(a, b uint8) uint8 {\n\tr := a + b\n")
		src.WriteString("\tr = " + cn + ".Mix(r)\n\tr = " + m1 + ".Wrap(r)\n\treturn r\n}\n")
	} else {
		if err := write(m1, m1, midPkg(m1, d1+"/"+cn, rng.Bool())); err != nil {
			return nil, err
		}
		if err := write(m2, m2, midPkg(m2, d2+"/"+cn, rng.Bool())); err != nil {
			return nil, err
		}
		src.WriteString("\t\"" + m1 + "\"\n\t\"" + m2 + "\"\n)\n\nfunc main(a, b uint8) uint8 {\n\tr := a + b\n")
		src.WriteString("\tr = " + m1 + ".Wrap(r)\n\tr = " + m2 + ".Wrap(r)\n\treturn r\n}\n")
	}
	return &c08Prog{Name: fmt.Sprintf("clash%03d-shape%d-%s", idx, shape, cn), Src: src.String(), PkgPath: []string{root}, Kind: "alias-clash"}, nil
}

// programs importing several packages of /repo/pkg
var c08MultiImports = [][]string{
	{"crypto/aes", "encoding/hex", "crypto/curve25519"}, // the F5 replay program of DESIGN section 9
	{"encoding/hex", "crypto/curve25519"},
	{"crypto/aes", "encoding/hex"},
	{"encoding/hex", "encoding/binary", "bytes"},
	{"math", "encoding/hex"},
	{"crypto/sha256", "encoding/hex", "crypto/hmac"},
	{"crypto/chacha20", "crypto/aes"},
}

func c08MultiProgram(paths []string) *c08Prog {
	var sb strings.Builder
	body := "\treturn a + b\n"
	for _, p := range paths {
		if p == "encoding/hex" {
			body = "\treturn a + b + uint8(hex.Digits[1])\n"
		}
	}
	sb.WriteString("package main\n\nimport (\n")
	for _, p := range paths {
		sb.WriteString("\t\"" + p + "\"\n")
	}
	sb.WriteString(")\n\nfunc main(a, b uint8) uint8 {\n" + body + "}\n")
	return &c08Prog{Name: "multi:" + strings.Join(paths, "+"), Src: sb.String(), Kind: "repo-multi-import"}
}

// files that are slow to compile or need the emptied sha512 circuits
var c08SkipQuick = []string{"examples/aesblock", "examples/aescbc", "examples/encrypt", "examples/mult.mpcl", "sha256_block", "aesexpand", "itoa", "chacha20block"}

var c08SkipSubstr = []string{"examples/sort.mpcl", "sha512", "ed25519", "rsa", "mult1024", "curve25519", "p256", "elliptic", "ecdh", "tls", "hkdf", "hmac-sha512", "montgomery", "aesgcm", "mascot", "key-import", "chacha20poly1305", "poly1305", "3party"}

func c08Corpus(quick bool) []*c08Prog {
	var out []*c08Prog
	repo := c08Repo()
	add := func(kind, root string) {
		filepath.Walk(root, func(path string, fi os.FileInfo, err error) error {
			if err != nil || fi.IsDir() || !compiler.IsFilename(path) {
				return nil
			}
			rel, _ := filepath.Rel(repo, path)
			for _, s := range c08SkipSubstr {
				if strings.Contains(rel, s) {
					return nil
				}
			}
			if quick {
				for _, s := range c08SkipQuick {
					if strings.Contains(rel, s) {
						return nil
					}
				}
			}
			b, err := os.ReadFile(path)
			if err != nil || strings.Contains(string(b), "sha512") || strings.Contains(string(b), "@heavy") {
				return nil
			}
			out = append(out, &c08Prog{Name: rel, File: path, Kind: kind})
			return nil
		})
	}
	add("testsuite", filepath.Join(repo, "testsuite"))
	add("example", filepath.Join(repo, "apps/garbled/examples"))
	sort.Slice(out, func(i, j int) bool { return out[i].Name < out[j].Name })
	// every fourth program also for the GMW target
	n := len(out)
	for i := 0; i < n; i += 4 {
		q := *out[i]
		q.Name += " [GMW]"
		q.GMW = true
		q.Kind += "-gmw"
		out = append(out, &q)
	}
	return out
}

// ---------------------------------------------------------------- the same constant at several widths

// Program.DefineConstants sorts the constant table by NAME only and wires the first entry of each
// name; that is order independent only while names are unique in the table.  These programs use one
// numeric value at several widths and signednesses (top bit of the narrow width set, all-ones,
// negative literals) in signed and unsigned arithmetic, comparisons and as return values, so that a
// table keyed by anything finer than the name gets tied entries whose winner changes the circuit.

type c08Const struct {
	Key  string `json:"key"`
	Name string `json:"name"`
	Bits int    `json:"bits"`
}

// c08ConstTable returns ssa.Program.Constants (what DefineConstants ranges over) after CompileSSA.
func c08ConstTable(p *c08Prog) (tbl []c08Const, err error) {
	c08Quiet(func() {
		defer func() {
			if r := recover(); r != nil {
				err = fmt.Errorf("panic: %v", r)
			}
		}()
		w := &c08Writer{b: new(bytes.Buffer)}
		params := c08Params(p, w)
		var src io.Reader
		name := "{data}"
		if p.File != "" {
			f, e := os.Open(p.File)
			if e != nil {
				err = e
				return
			}
			defer f.Close()
			src, name = f, p.File
		} else {
			src = strings.NewReader(p.Src)
		}
		prog, _, e := compiler.New(params).CompileSSA(name, src, nil)
		if e != nil {
			err = e
			return
		}
		for k, ci := range prog.Constants {
			tbl = append(tbl, c08Const{Key: k, Name: ci.Const.Name, Bits: int(ci.Const.Type.Bits)})
		}
	})
	sort.Slice(tbl, func(i, j int) bool { return tbl[i].Key < tbl[j].Key })
	return
}

var c08DirectedWidthPrograms = []string{
	// the shape of the seeded-defect demo: 0x80000000 as int64 and as uint32
	"package main\n\nconst K int64 = 0x80000000\nconst M uint32 = 0x80000000\n\nfunc main(a, b int64) (int64, uint32) {\n\tc := uint32(b)\n\treturn a + K, c ^ M\n}\n",
	"package main\n\nfunc main(a, b int64) (int64, uint32) {\n\tc := uint32(b)\n\treturn a + 0x80000000, c ^ 0x80000000\n}\n",
	"package main\n\nconst K int64 = 0xffffffff\nconst M uint32 = 0xffffffff\n\nfunc main(a, b int64) (int64, uint32) {\n\tc := uint32(b)\n\treturn a - K, c & M\n}\n",
	"package main\n\nconst K int32 = 0x8000\nconst M uint16 = 0x8000\n\nfunc main(a, b int32) (int32, uint16) {\n\tc := uint16(b)\n\treturn a + K, c | M\n}\n",
	"package main\n\nconst K int16 = 0x80\nconst M uint8 = 0x80\n\nfunc main(a, b int16) (int16, uint8) {\n\tc := uint8(b)\n\treturn a * K, c ^ M\n}\n",
	"package main\n\nconst K int64 = 0x80000000\nconst M uint32 = 0x80000000\n\nfunc main(a, b int64) (bool, bool) {\n\tc := uint32(b)\n\treturn a < K, c > M\n}\n",
	"package main\n\nconst K int64 = 0x80000000\nconst M uint32 = 0x80000000\n\nfunc main(a, b int64) (int64, uint32) {\n\treturn K, M\n}\n",
	"package main\n\nconst K uint64 = 0x80000000\nconst L int64 = 0x80000000\nconst M uint32 = 0x80000000\n\nfunc main(a, b int64) (uint64, int64, uint32) {\n\tc := uint32(b)\n\td := uint64(a)\n\treturn d + K, a - L, c + M\n}\n",
	"package main\n\nconst K int64 = -2147483648\nconst M int32 = -2147483648\n\nfunc main(a, b int64) (int64, int32) {\n\tc := int32(b)\n\treturn a + K, c + M\n}\n",
	"package main\n\nconst K int32 = -1\nconst M int64 = -1\n\nfunc main(a, b int64) (int32, int64) {\n\tc := int32(b)\n\treturn c + K, a - M\n}\n",
	"package main\n\nconst K int64 = 0xffff\nconst M uint16 = 0xffff\n\nfunc main(a, b int64) (int64, uint16, bool) {\n\tc := uint16(b)\n\treturn a ^ K, c - M, a == K\n}\n",
	"package main\n\nconst K int64 = 0x80000000\n\nfunc main(a, b int64) int64 {\n\tvar c uint32 = 0x80000000\n\tif uint32(b) > c {\n\t\treturn a + K\n\t}\n\treturn a - K\n}\n",
}

func c08KindRank(kind string) int {
	switch kind {
	case "const-widths", "intern", "constructs", "options", "options-file", "intern-file", "intern-file-file":
		return 0
	case "alias-clash":
		return 1
	case "generated":
		return 2
	case "repo-multi-import":
		return 3
	}
	return 4
}

// genWidthProgram: a random program that uses one literal value at 2-3 types.
func c08GenWidthProgram(rng *RNG, idx int) *c08Prog {
	narrowW := []int{8, 16, 32}[rng.Intn(3)]
	var val string
	signedNarrow := false
	kind := rng.Intn(5)
	if kind >= 3 {
		narrowW = 32 // negative literals are int32 at least
	}
	switch kind {
	case 0:
		val = fmt.Sprintf("0x%x", uint64(1)<<(narrowW-1))
	case 1:
		val = fmt.Sprintf("0x%x", (uint64(1)<<narrowW)-1)
	case 2:
		val = fmt.Sprintf("0x%x", (uint64(1)<<(narrowW-1))+uint64(rng.Range(1, 100)))
	case 3:
		val = fmt.Sprintf("-%d", uint64(1)<<(narrowW-1))
		signedNarrow = true
	default:
		val = fmt.Sprintf("-%d", rng.Range(1, 100))
		signedNarrow = true
	}
	narrowT := fmt.Sprintf("uint%d", narrowW)
	if signedNarrow {
		narrowT = fmt.Sprintf("int%d", narrowW)
	}
	wideW := []int{16, 32, 64}[rng.Intn(3)]
	for wideW <= narrowW {
		wideW *= 2
	}
	wideT := fmt.Sprintf("int%d", wideW)
	if !signedNarrow && rng.Intn(4) == 0 {
		wideT = fmt.Sprintf("uint%d", wideW)
	}
	arith := []string{"+", "-", "*", "^", "&", "|"}
	cmp := []string{"<", ">", "==", "!=", "<=", ">="}
	if wideW == 64 {
		arith = []string{"+", "-", "^", "&", "|"} // 64-bit multipliers are slow to compile
	}
	useConst := rng.Bool()
	k, m := "K", "M"
	var sb strings.Builder
	sb.WriteString("package main\n\n")
	if useConst {
		sb.WriteString(fmt.Sprintf("const K %s = %s\nconst M %s = %s\n\n", wideT, val, narrowT, val))
	} else {
		k, m = val, val
	}
	third := rng.Intn(3) == 0 && wideW < 64
	sb.WriteString(fmt.Sprintf("func main(a, b %s) (%s, %s, bool", wideT, wideT, narrowT))
	if third {
		sb.WriteString(", int64")
	}
	sb.WriteString(") {\n")
	sb.WriteString(fmt.Sprintf("\tc := %s(b)\n", narrowT))
	e1 := fmt.Sprintf("a %s %s", arith[rng.Intn(len(arith))], k)
	e2 := fmt.Sprintf("c %s %s", arith[rng.Intn(len(arith))], m)
	e3 := fmt.Sprintf("a %s %s", cmp[rng.Intn(len(cmp))], k)
	if rng.Intn(3) == 0 {
		e3 = fmt.Sprintf("c %s %s", cmp[rng.Intn(len(cmp))], m)
	}
	if rng.Intn(5) == 0 {
		e1 = k
	}
	sb.WriteString(fmt.Sprintf("\treturn %s, %s, %s", e1, e2, e3))
	if third {
		sb.WriteString(fmt.Sprintf(", int64(a) + %s", val))
	}
	sb.WriteString("\n}\n")
	return &c08Prog{Name: fmt.Sprintf("widths%03d-%s-%s-%s", idx, val, narrowT, wideT), Src: sb.String(), Kind: "const-widths"}
}

// c08ParamsSnapshot renders every exported field of *utils.Params (pointers: address and pointee,
// maps and slices: contents, writers: identity) so that a compilation that writes its configuration
// is seen whatever it compiles next.
func c08ParamsSnapshot(p *utils.Params) map[string]string {
	out := map[string]string{}
	if p == nil {
		return out
	}
	v := reflect.ValueOf(p).Elem()
	t := v.Type()
	for i := 0; i < t.NumField(); i++ {
		f := t.Field(i)
		if !f.IsExported() {
			continue
		}
		fv := v.Field(i)
		switch fv.Kind() {
		case reflect.Ptr:
			if fv.IsNil() {
				out[f.Name] = "nil"
			} else {
				out[f.Name] = fmt.Sprintf("%p:%+v", fv.Interface(), fv.Elem().Interface())
			}
		case reflect.Interface:
			if fv.IsNil() {
				out[f.Name] = "nil"
			} else {
				out[f.Name] = fmt.Sprintf("%T@%p", fv.Interface(), fv.Interface())
			}
		default:
			out[f.Name] = fmt.Sprintf("%#v", fv.Interface())
		}
	}
	return out
}

// directed language constructs whose code generation goes through sets and alias bookkeeping:
// computed values stored into elements of local arrays / fields of local structs / concatenations
// that are consumed inside the program (several releasable bases at one program point)
var c08ConstructPrograms = []string{
	"package main\n\nfunc main(a, b uint8) uint8 {\n\tvar arr [4]uint8\n\tarr[0] = a + b\n\tarr[1] = a ^ b\n\tarr[2] = a & b\n\tarr[3] = arr[0] | arr[1]\n\treturn arr[0] + arr[2] + arr[3]\n}\n",
	"package main\n\ntype S struct {\n\tx uint8\n\ty uint16\n}\n\nfunc main(a, b uint8) uint8 {\n\tvar s S\n\ts.x = a + b\n\ts.y = uint16(a) + uint16(b)\n\treturn s.x + uint8(s.y)\n}\n",
	"package main\n\nfunc sum(v [3]uint16) uint16 {\n\treturn v[0] + v[1] + v[2]\n}\n\nfunc main(a, b uint16) uint16 {\n\tvar v [3]uint16\n\tv[0] = a * b\n\tv[1] = a - b\n\tv[2] = a >> 3\n\treturn sum(v) + v[1]\n}\n",
	"package main\n\nfunc main(a, b uint8) uint8 {\n\tbuf := make([]byte, 4)\n\tbuf[0] = a\n\tbuf[1] = b\n\tbuf[2] = a + b\n\tc := buf[1:3]\n\treturn c[0] ^ c[1] ^ buf[0]\n}\n",
	"package main\n\ntype P struct {\n\tv [2]uint8\n\tn uint8\n}\n\nfunc main(a, b uint8) uint8 {\n\tvar p P\n\tp.v[0] = a + 1\n\tp.v[1] = b + 2\n\tp.n = p.v[0] ^ p.v[1]\n\tq := &p\n\tq.n = q.n + a\n\treturn p.n + p.v[1]\n}\n",
}

// ---------------------------------------------------------------- the intern() builtin

// intern(sym) returns the id of the symbol; a new symbol gets the next id and is stored in
// Params.SymbolIDs (the one write to the configuration that C08_params_readonly admits).  The VALUE
// written must be a function of the program: ids are handed out in program order.  Programs with 3, 6
// and 12 distinct symbols (ids become $N constants of listing and circuit), with a fresh table and
// with a preloaded one (what Params.LoadSymbolIDs produces, with a gap).
var c08InternNames = []string{"alpha", "beta", "gamma", "delta", "epsilon", "zeta", "eta", "theta", "iota", "kappa", "lambda", "mu"}

func c08InternPrograms() []*c08Prog {
	var out []*c08Prog
	for _, n := range []int{3, 6, 12} {
		for variant := 0; variant < 2; variant++ {
			var sb strings.Builder
			sb.WriteString("package main\n\nfunc main(a, b int32) int32 {\n\tr := a\n")
			var syms []string
			for i := 0; i < n; i++ {
				sym := c08InternNames[(i*5+variant*3)%len(c08InternNames)]
				if n < 12 {
					sym = c08InternNames[(i+variant*4)%len(c08InternNames)]
				}
				syms = append(syms, sym)
				sb.WriteString("\tr = (r + intern(" + sym + ")) ^ b\n")
			}
			// a repeated symbol must get the id it already has
			sb.WriteString("\tr = r + intern(" + syms[0] + ")\n\treturn r\n}\n")
			p := &c08Prog{Name: fmt.Sprintf("intern-%d-symbols", n), Src: sb.String(), Kind: "intern", Symbols: syms}
			if variant == 1 {
				p.Name += "-preloaded"
				p.SymbolIDs = map[string]int{"omega": 0, "sigma": 1, syms[1]: 4}
			}
			out = append(out, p)
		}
	}
	return out
}

// ---------------------------------------------------------------- histories

// What survives between two compilations in one process: the *utils.Params object (users share it
// between Compiler instances, e.g. the evaluator loop of apps/garbled), the Compiler object and
// package-level state.  Pool: small programs whose circuits depend on per-width tuning
// (multipliers of tuned widths 16-21, 37-41, 71.. and untuned widths 8, 32, 64..), dividers, adders,
// both targets.  Program B is compiled (i) fresh, (ii) with a new Compiler but the Params object
// that was used to compile A before, (iii) with the Compiler (and Params) that compiled A before.
type c08HistProg struct {
	name string
	prog *c08Prog
}

func c08HistoryPool(thorough bool) []c08HistProg {
	var out []c08HistProg
	add := func(name, typ, op string, gmw bool) {
		src := fmt.Sprintf("package main\n\nfunc main(a, b %s) %s {\n\treturn a %s b\n}\n", typ, typ, op)
		if gmw {
			name += "-gmw"
		}
		out = append(out, c08HistProg{name, &c08Prog{Name: "hist:" + name, Src: src, Kind: "history", GMW: gmw}})
	}
	mw := []int{8, 16, 17, 32, 37, 64}
	if thorough {
		mw = []int{8, 16, 17, 21, 32, 37, 40, 64, 71, 128}
	}
	for _, w := range mw {
		add(fmt.Sprintf("mul-uint%d", w), fmt.Sprintf("uint%d", w), "*", false)
	}
	add("mul-int32", "int32", "*", false)
	add("mul-int16", "int16", "*", false)
	for _, w := range []int{8, 16, 32} {
		add(fmt.Sprintf("div-uint%d", w), fmt.Sprintf("uint%d", w), "/", false)
	}
	add("mod-uint16", "uint16", "%", false)
	add("add-uint16", "uint16", "+", false)
	add("add-uint32", "uint32", "+", false)
	// abort-then-retry: programs that fail to compile (type error, parse error, missing import) as A
	out = append(out, c08HistProg{"err-type", &c08Prog{Name: "hist:err-type", Kind: "history", Src: "package main\n\nfunc main(a, b uint16) uint16 {\n\tc := a * b\n\treturn c + true\n}\n"}})
	out = append(out, c08HistProg{"err-parse", &c08Prog{Name: "hist:err-parse", Kind: "history", Src: "package main\n\nfunc main(a, b uint16) uint16 {\n\treturn a * (b\n}\n"}})
	out = append(out, c08HistProg{"err-import", &c08Prog{Name: "hist:err-import", Kind: "history", Src: "package main\n\nimport (\n\t\"encoding/hex\"\n\t\"no/such/pkg\"\n)\n\nfunc main(a, b uint16) uint16 {\n\treturn a * b\n}\n"}})
	add("mul-uint16", "uint16", "*", true)
	add("mul-uint32", "uint32", "*", true)
	add("div-uint16", "uint16", "/", true)
	return out
}

func c08RunHistories(c *Ctx) {
	pool := c08HistoryPool(c.Thorough())
	base := make([]c08Obs, len(pool))
	mutated := map[string]string{}
	note := func(o c08Obs, who string) {
		for _, f := range o.Mutated {
			if _, ok := mutated[f]; !ok {
				mutated[f] = who
			}
		}
	}
	for i, hp := range pool {
		base[i] = c08Compile(hp.prog)
		c.nEval++
		note(base[i], hp.name)
		c.Hist("kind:history")
	}
	differs := func(a, b c08Obs) string {
		switch {
		case a.Err != b.Err:
			return "error-differs"
		case a.Circ != b.Circ || a.Bristol != b.Bristol:
			return "circuit-differs"
		case a.SSA != b.SSA:
			return "listing-differs"
		}
		return ""
	}
	// exact pair with fresh state: A then B
	pair := func(ai, bi int, sameCompiler bool) c08Obs {
		w := &c08Writer{}
		params := c08Params(pool[ai].prog, w)
		cc := compiler.New(params)
		c08CompileWith(cc, params, w, pool[ai].prog)
		if !sameCompiler {
			cc = compiler.New(params)
		}
		c.nEval += 2
		return c08CompileWith(cc, params, w, pool[bi].prog)
	}
	reported := map[string]bool{}
	for _, sameCompiler := range []bool{false, true} {
		mode := "shared-params"
		if sameCompiler {
			mode = "same-compiler"
		}
		for ai, A := range pool {
			w := &c08Writer{}
			params := c08Params(A.prog, w)
			cc := compiler.New(params)
			note(c08CompileWith(cc, params, w, A.prog), A.name)
			c.nEval++
			for bi, B := range pool {
				if bi == ai || B.prog.GMW != A.prog.GMW {
					continue
				}
				if !sameCompiler {
					cc = compiler.New(params)
				}
				o := c08CompileWith(cc, params, w, B.prog)
				c.nEval++
				note(o, B.name)
				c.Eval("history:"+mode+":"+A.name+";"+B.name, true)
				d := differs(base[bi], o)
				if d == "" {
					continue
				}
				// attribute: does the exact pair (fresh Params: A, then B) reproduce it?
				exact := pair(ai, bi, sameCompiler)
				de := differs(base[bi], exact)
				key := "c08:history:" + mode + ":" + d
				what := fmt.Sprintf("%s compiled after %s with the same Params object", B.name, A.name)
				if sameCompiler {
					what += " and the same Compiler"
				} else {
					what += " (new Compiler)"
				}
				what += " differs from its compilation with fresh Params"
				if de == "" {
					what += " (seen after the sequence " + A.name + ", ... ; the pair alone does not reproduce it)"
				}
				if reported[key+B.name] { // one report per (mode, B): the first A that disturbs B
					continue
				}
				reported[key+B.name] = true
				c.Fail(key, what, map[string]interface{}{
					"program_A": A.prog, "program_B": B.prog, "mode": mode, "pair_alone_reproduces": de != "",
					"B_fresh":                    map[string]string{"circ": base[bi].Circ, "ssa": base[bi].SSA, "err": base[bi].Err, "result_on_3_5": c08Eval(base[bi].circ)},
					"B_after_A":                  map[string]string{"circ": o.Circ, "ssa": o.SSA, "err": o.Err, "result_on_3_5": c08Eval(o.circ)},
					"params_fields_changed_by_A": base[ai].Mutated})
			}
		}
	}
	var fields []string
	for f := range mutated {
		fields = append(fields, f)
	}
	sort.Strings(fields)
	for _, f := range fields {
		c.Fail("c08:params-mutated-by-compilation:"+f, fmt.Sprintf("compiling %s changes the exported field %s of its *utils.Params", mutated[f], f),
			map[string]interface{}{"program": mutated[f], "field": f})
	}
	c.Hist(fmt.Sprintf("history-pool:%d", len(pool)))
}

// ---------------------------------------------------------------- doors: options, output writers, entry points

// Every base program is compiled under each option set through the usual pipeline (k fresh
// compilations, reused Compiler, child processes).  Additional oracles over the groups: the
// print-only options (Verbose, Diagnostics, MPCLCErrorLoc, Warn) must not change any output; the
// listing written through Compiler.Stream/StreamFile (BenchmarkCompile) must be the listing of
// Compile/CompileFile.
func c08OptionPrograms() []*c08Prog {
	bases := []*c08Prog{
		{Name: "opt:mul16", Src: "package main\n\nfunc main(a, b uint16) uint16 {\n\treturn a * b + 3\n}\n"},
		{Name: "opt:div-if", Src: "package main\n\nfunc main(a, b int32) int32 {\n\tif a > b {\n\t\treturn a / 7\n\t}\n\treturn b - a\n}\n"},
		{Name: "opt:loop", Src: "package main\n\nfunc main(a, b uint8) uint8 {\n\tvar r uint8\n\tfor i := 0; i < 6; i++ {\n\t\tr = r + (a >> i) & b\n\t}\n\treturn r\n}\n"},
		{Name: "opt:imports", Src: "package main\n\nimport (\n\t\"bytes\"\n\t\"encoding/hex\"\n)\n\nfunc main(a, b uint8) uint8 {\n\treturn a + b + uint8(hex.Digits[1])\n}\n"},
		{Name: "opt:sized-args", Src: "package main\n\nfunc main(a, b []byte) byte {\n\treturn a[0] ^ b[len(b)-1]\n}\n", Opts: c08Opts{InputSizes: [][]int{{24}, {40}}}},
		{Name: "opt:intern-sids", Src: "package main\n\nfunc main(a, b int32) int32 {\n\treturn a + intern(beta) + intern(kappa) + intern(omega) + b\n}\n",
			Opts: c08Opts{SidsFile: "// -*- go -*-\n\npackage main\n\nconst (\n\tomega = 0\n\tsigma = 1\n\tbeta  = 4\n)\n"}, Kind: "intern-file"},
	}
	sets := []struct {
		tag  string
		o    c08Opts
		gmw  bool
		file bool
	}{
		{"plain", c08Opts{}, false, false},
		{"prune", c08Opts{Prune: true}, false, false},
		{"prune+outs", c08Opts{Prune: true, AllOuts: true}, false, false},
		{"outs-bristol", c08Opts{AllOuts: true, Format: "bristol"}, false, false},
		{"print-only", c08Opts{Verbose: true, Diagnostics: true, ErrLoc: true, WarnNone: true}, false, false},
		{"prune+print-only", c08Opts{Prune: true, Verbose: true, WarnNone: true}, false, false},
		{"nocirc", c08Opts{NoCirc: true}, false, false},
		{"mult12-unroll64", c08Opts{MultThreshold: 12, MaxLoopUnroll: 64}, false, false},
		{"stream", c08Opts{ViaStream: true}, false, false},
		{"streamfile+prune", c08Opts{ViaStream: true, Prune: true}, false, true},
		{"gmw+prune+outs", c08Opts{Prune: true, AllOuts: true}, true, false},
		{"file+outs", c08Opts{AllOuts: true}, false, true},
	}
	var out []*c08Prog
	for bi, b := range bases {
		for si, st := range sets {
			// all option sets for two bases, the main ones for the others (quick-tier budget)
			if bi != 0 && bi != 3 && si != 0 && si != 2 && si != 4 && si != 8 && si != 10 {
				continue
			}
			q := *b
			o := st.o
			o.InputSizes, o.SidsFile = b.Opts.InputSizes, b.Opts.SidsFile
			q.Opts = o
			q.GMW = st.gmw
			q.Name = b.Name + " [" + st.tag + "]"
			if q.Kind == "" {
				q.Kind = "options"
			}
			if st.file {
				q.Kind += "-file" // written to a file and compiled with CompileFile / StreamFile
			}
			out = append(out, &q)
		}
	}
	return out
}

// ---------------------------------------------------------------- histories: process-level state

// Package-level state (caches, memo tables) survives fresh Params AND fresh Compilers, so an
// in-process "fresh" compilation is not a clean baseline.  For a pool of constant-folding programs on
// types wider than 64 bits (mpa.Int folds + - * of wide constants by building and evaluating a
// circuit) the baseline of every program B is its compilation as the FIRST compilation of a new
// child process; it is compared with B compiled in this process after the other pool programs
// (fresh Params and Compiler each).  The pool holds pairs with the same operator and the same
// operand bit lengths at different result types, in both orders (narrow type first / wide type
// first), each pair with its own bit-length signature.
func c08WidePool() []*c08Prog {
	var out []*c08Prog
	hex := func(bits int, lowNibble byte) string { // a constant of exactly `bits` bits
		n := (bits + 3) / 4
		top := []byte("1248")[(bits-1)%4]
		b := make([]byte, n)
		for i := range b {
			b[i] = "f3c5a96e"[i%8]
		}
		b[0] = top
		b[n-1] = lowNibble
		return "0x" + string(b)
	}
	add := func(name, typ, expr, x, y string) {
		src := fmt.Sprintf("package main\n\nconst A %s = %s\nconst B %s = %s\n\nfunc main(a, b %s) %s {\n\treturn a ^ b ^ (%s)\n}\n", typ, x, typ, y, typ, typ, expr)
		out = append(out, &c08Prog{Name: "wide:" + name, Src: src, Kind: "history-process"})
	}
	type sig struct {
		op         string
		xb, yb     int
		first, snd string
	}
	sigs := []sig{
		{"*", 101, 68, "uint128", "uint256"}, // product needs 169 bits: truncated at 128, not at 256
		{"*", 99, 70, "uint256", "uint128"},
		{"*", 90, 75, "uint160", "uint192"},
		{"+", 128, 128, "uint128", "uint256"}, // carry out of bit 127
		{"*", 80, 60, "uint128", "uint160"},
		{"*", 72, 72, "uint256", "uint128"},
		{"-", 97, 66, "uint128", "uint256"}, // (add/sub of short operands hit the known C12 finding F6f: equal error text)
		{"*", 66, 66, "uint100", "uint128"},
	}
	for _, sg := range sigs {
		x, y := hex(sg.xb, 'd'), hex(sg.yb, '7')
		for _, typ := range []string{sg.first, sg.snd} {
			add(fmt.Sprintf("%s-%d-%d-%s", map[string]string{"*": "mul", "+": "add", "-": "sub"}[sg.op], sg.xb, sg.yb, typ), typ, "A "+sg.op+" B", x, y)
		}
	}
	// wide constant shifts
	add("shl-101-uint128", "uint128", "A << 30", hex(101, 'd'), "1")
	add("shl-101-uint256", "uint256", "A << 30", hex(101, 'd'), "1")
	return out
}

func c08RunProcessHistories(c *Ctx, tmp string) error {
	exe, err := os.Executable()
	if err != nil {
		return err
	}
	pool := c08WidePool()
	child := func(name string, progs []*c08Prog) ([]c08Obs, error) {
		var specs []c08Prog
		for _, p := range progs {
			specs = append(specs, *p)
		}
		b, _ := json.Marshal(specs)
		spec := filepath.Join(tmp, name+".spec.json")
		out := filepath.Join(tmp, name+".out.json")
		if err := os.WriteFile(spec, b, 0o644); err != nil {
			return nil, err
		}
		cmd := exec.Command(exe, "c08child", "fresh", spec, out)
		cmd.Env = os.Environ()
		cmd.Stdout, cmd.Stderr = nil, os.Stderr
		if err := cmd.Run(); err != nil {
			return nil, fmt.Errorf("child %s: %v", name, err)
		}
		ob, err := os.ReadFile(out)
		if err != nil {
			return nil, err
		}
		var obs []c08Obs
		if err := json.Unmarshal(ob, &obs); err != nil || len(obs) != len(progs) {
			return nil, fmt.Errorf("child %s: bad output", name)
		}
		c.nEval += len(progs)
		return obs, nil
	}
	differs := func(a, b c08Obs) string {
		switch {
		case a.Err != b.Err:
			return "error-differs"
		case a.Circ != b.Circ || a.Bristol != b.Bristol:
			return "circuit-differs"
		case a.SSA != b.SSA:
			return "listing-differs"
		}
		return ""
	}
	// baselines: each program as the first compilation of a new process
	base := make([]c08Obs, len(pool))
	for i, p := range pool {
		obs, err := child(fmt.Sprintf("wide-base-%d", i), []*c08Prog{p})
		if err != nil {
			return err
		}
		base[i] = obs[0]
		c.Hist("kind:history-process")
		if obs[0].Err != "" {
			c.Hist("result:history-process:compile-error")
			c.Note("%s does not compile: %s", p.Name, obs[0].Err)
		}
	}
	// in this process: every program after the programs before it in the pool (and after everything
	// the run compiled so far), fresh Params and Compiler each; twice
	for round := 0; round < 2; round++ {
		for bi, B := range pool {
			o := c08Compile(B)
			c.nEval++
			c.Eval(fmt.Sprintf("history:process:%d:%s", round, B.Name), true)
			d := differs(base[bi], o)
			if d == "" || round > 0 {
				continue
			}
			// find an A such that the fresh process [A, B] reproduces the difference
			var culprit *c08Prog
			for ai, A := range pool {
				if ai == bi {
					continue
				}
				obs, err := child(fmt.Sprintf("wide-pair-%d-%d", ai, bi), []*c08Prog{A, B})
				if err != nil {
					return err
				}
				if differs(base[bi], obs[1]) != "" {
					culprit = A
					break
				}
			}
			what := fmt.Sprintf("%s compiled in a process that compiled other programs before (fresh Params and Compiler) differs from its compilation as the first program of a fresh process", B.Name)
			replay := map[string]interface{}{"program_B": B,
				"B_first_in_fresh_process": map[string]string{"circ": base[bi].Circ, "ssa": base[bi].SSA, "err": base[bi].Err},
				"B_in_this_process":        map[string]string{"circ": o.Circ, "ssa": o.SSA, "err": o.Err, "result_on_3_5": c08Eval(o.circ)}}
			if culprit != nil {
				what = fmt.Sprintf("%s compiled after %s in one process (fresh Params and Compiler each) differs from its compilation as the first program of a fresh process", B.Name, culprit.Name)
				replay["program_A"] = culprit
				replay["pair_in_fresh_process_reproduces"] = true
			}
			c.Fail("c08:history:process-level-cache:"+d, what, replay)
		}
	}
	c.Hist(fmt.Sprintf("history-process-pool:%d", len(pool)))
	return nil
}

// ---------------------------------------------------------------- concurrent compilations (schedules)

// c08NoQuiet: set while the concurrent family runs (os.Stdout is swapped once, not per compilation).
var c08NoQuiet bool

// Overlapping compilations in one process - separate goroutines, each with its own Compiler, Params
// and SSAOut writer - must give what the sequential compilation of the program gives: package-level
// scratch state shared by all compilations would make listing, output names or circuit bytes depend
// on goroutine scheduling.  Modes: the same program in all goroutines; different programs in
// different goroutines; N = 2*GOMAXPROCS goroutines, and again 8 goroutines with GOMAXPROCS(2).
func c08RunConcurrent(c *Ctx) {
	var pool []*c08Prog
	for _, hp := range c08HistoryPool(false) {
		if !hp.prog.GMW && !strings.Contains(hp.name, "64") && !strings.Contains(hp.name, "32") && !strings.Contains(hp.name, "37") {
			pool = append(pool, hp.prog)
		}
	}
	for i, src := range c08DirectedWidthPrograms[:4] {
		pool = append(pool, &c08Prog{Name: fmt.Sprintf("widths-directed-%02d", i), Src: src, Kind: "const-widths"})
	}
	pool = append(pool, c08MultiProgram([]string{"encoding/hex", "bytes"}))
	pool = append(pool, c08InternPrograms()[2]) // 6 symbols, fresh table
	ref := make([]c08Obs, len(pool))
	for i, p := range pool {
		ref[i] = c08Compile(p)
		c.nEval++
	}
	differs := func(a, b c08Obs) string {
		switch {
		case a.Err != b.Err:
			return "error-differs"
		case a.SSA != b.SSA:
			return "listing-differs"
		case a.Circ != b.Circ || a.Bristol != b.Bristol:
			return "circuit-differs"
		}
		return ""
	}
	type res struct {
		pi  int
		obs c08Obs
	}
	run := func(n, reps int, pick func(g, r int) int) []res {
		out := make([][]res, n)
		var wg sync.WaitGroup
		start := make(chan struct{})
		for g := 0; g < n; g++ {
			wg.Add(1)
			go func(g int) {
				defer wg.Done()
				<-start
				for r := 0; r < reps; r++ {
					pi := pick(g, r)
					out[g] = append(out[g], res{pi, c08Compile(pool[pi])})
				}
			}(g)
		}
		close(start)
		wg.Wait()
		var all []res
		for _, l := range out {
			all = append(all, l...)
		}
		return all
	}
	reported := map[string]bool{}
	check := func(mode string, n int, all []res) {
		bad := 0
		for _, r := range all {
			c.nEval++
			d := differs(ref[r.pi], r.obs)
			if d == "" {
				continue
			}
			bad++
			key := "c08:concurrent-compilations:" + d
			if reported[key+mode] {
				continue
			}
			reported[key+mode] = true
			p := pool[r.pi]
			c.Fail(key, fmt.Sprintf("%s compiled while other compilations run in %d goroutines (%s; own Compiler, Params and SSAOut each) differs from its sequential compilation", p.Name, n, mode),
				map[string]interface{}{"program": p, "mode": mode, "goroutines": n,
					"sequential":       map[string]string{"circ": ref[r.pi].Circ, "bristol": ref[r.pi].Bristol, "ssa": ref[r.pi].SSA, "err": ref[r.pi].Err},
					"concurrent":       map[string]string{"circ": r.obs.Circ, "bristol": r.obs.Bristol, "ssa": r.obs.SSA, "err": r.obs.Err},
					"ssa_diff_excerpt": c08DiffExcerpt(ref[r.pi].ssaText, r.obs.ssaText)})
		}
		c.Hist(fmt.Sprintf("concurrent:%s:compilations=%d:differing=%d", mode, len(all), bad))
		c.Eval("concurrent:"+mode, true)
	}
	// os.Stdout is swapped once for the whole family
	if c08DevNull == nil {
		c08DevNull, _ = os.OpenFile(os.DevNull, os.O_WRONLY, 0)
	}
	saved := os.Stdout
	if c08DevNull != nil {
		os.Stdout = c08DevNull
	}
	c08NoQuiet = true
	defer func() { c08NoQuiet = false; os.Stdout = saved }()

	n := 2 * runtime.GOMAXPROCS(0)
	if n > 16 {
		n = 16
	}
	if n < 4 {
		n = 4
	}
	reps := c.N(6, 20)
	for k := 0; k < 3; k++ { // the same program in all goroutines
		pi := (k * 5) % len(pool)
		check("same-program", n, run(n, reps, func(g, r int) int { return pi }))
	}
	check("different-programs", n, run(n, 2*reps, func(g, r int) int { return (g + r*7) % len(pool) }))
	old := runtime.GOMAXPROCS(2)
	check("different-programs-GOMAXPROCS2", 8, run(8, 2*reps, func(g, r int) int { return (g*3 + r) % len(pool) }))
	check("same-program-GOMAXPROCS2", 8, run(8, reps, func(g, r int) int { return len(pool) - 1 }))
	runtime.GOMAXPROCS(old)
}

// ---------------------------------------------------------------- probes for further sources of variation

const c08TwoFilesMain = "package main\n\nimport (\n\t\"twofiles\"\n)\n\nfunc main(a, b uint8) uint8 {\n\treturn a + b + twofiles.A[1] + twofiles.B[2]\n}\n"

// c08ProbeReaddir: Compiler.tryParsePkg parses the files of a package in the order of
// os.File.Readdirnames.  The same package directory (same path, same file names, same contents)
// is created twice with the files written in a different order; on file systems whose directory
// order follows the creation order (tmpfs) the two compilations of the same source with the same
// parameters see the files in a different order.
func c08ProbeReaddir(c *Ctx) {
	exhibited, varied := false, false
	for _, base := range []string{"/dev/shm", os.TempDir()} {
		root, err := os.MkdirTemp(base, "c08rd-")
		if err != nil {
			continue
		}
		var obs [2]c08Obs
		var names [2][]string
		unstable := false
		for k, order := range [][]string{{"a.mpcl", "b.mpcl"}, {"b.mpcl", "a.mpcl"}} {
			dir := filepath.Join(root, "twofiles")
			os.RemoveAll(dir)
			os.MkdirAll(dir, 0o755)
			for _, f := range order {
				v := "A"
				if f == "b.mpcl" {
					v = "B"
				}
				os.WriteFile(filepath.Join(dir, f), []byte("package twofiles\n\nvar "+v+" = []byte{1, 2, 3}\n"), 0o644)
			}
			if d, err := os.Open(dir); err == nil {
				names[k], _ = d.Readdirnames(-1)
				d.Close()
			}
			prog := &c08Prog{Name: "readdir-probe", Src: c08TwoFilesMain, PkgPath: []string{root}}
			obs[k] = c08Compile(prog)
			c.nEval++
			for rep := 0; rep < 5; rep++ { // the same directory order must always give the same output
				o := c08Compile(prog)
				c.nEval++
				if o.key() != obs[k].key() {
					unstable = true
				}
			}
		}
		os.RemoveAll(root)
		orderDiffers := strings.Join(names[0], ",") != strings.Join(names[1], ",")
		c.Hist(fmt.Sprintf("readdir-probe:%s:order-follows-creation=%v", base, orderDiffers))
		if orderDiffers {
			varied = true
		}
		if unstable {
			// not attributable to the directory order: the output varies for one and the same order
			c.Fail("c08:unexplained:output-differs", "readdir-probe program: repeated compilations with an unchanged package directory differ",
				map[string]interface{}{"base": base, "main": c08TwoFilesMain})
			exhibited = true
			break
		}
		if obs[0].key() != obs[1].key() {
			exhibited = true
			what := "SSA listing differs"
			key := "c08:tryParsePkg:readdir-order"
			if obs[0].Circ != obs[1].Circ {
				what = "circuit bytes differ"
				key += ":circuit-differs"
			}
			c.Fail(key, fmt.Sprintf("a package with two files compiled twice from the same path with the same contents and parameters: Readdirnames returned %v then %v (files written in a different order) and the outputs differ (%s)", names[0], names[1], what),
				map[string]interface{}{"base": base, "main": c08TwoFilesMain, "readdir_1": names[0], "readdir_2": names[1],
					"output_1":         map[string]string{"circ": obs[0].Circ, "ssa": obs[0].SSA, "err": obs[0].Err},
					"output_2":         map[string]string{"circ": obs[1].Circ, "ssa": obs[1].SSA, "err": obs[1].Err},
					"ssa_diff_excerpt": c08DiffExcerpt(obs[0].ssaText, obs[1].ssaText)})
			break
		}
	}
	if !exhibited {
		if varied {
			c.Note("readdir probe: the directory order varied with the creation order but the outputs were identical (package files are parsed in a canonical order)")
		} else {
			c.Note("readdir probe: no file system available here whose directory order follows the creation order; dependence on Readdirnames order not exercised")
		}
	}
}

// c08ProbeSymbolIDs: ast.Intern hands out ids in first-use order and stores them in
// Params.SymbolIDs, which is documented parameter state (LoadSymbolIDs/SaveSymbolIDs).  Checked:
// (1) two compilations with fresh Params agree; (2) two compilations whose Params hold the same
// SymbolIDs table agree (one reached by an earlier compilation, one preset).  The dependence of the
// output on the table (hence on earlier compilations sharing the Params object) is recorded as a note.
func c08ProbeSymbolIDs(c *Ctx) {
	progA := &c08Prog{Name: "intern-A", Src: "package main\n\nfunc main(a, b int32) int {\n\treturn intern(alpha) + intern(gamma)\n}\n"}
	progB := &c08Prog{Name: "intern-B", Src: "package main\n\nfunc main(a, b int32) int {\n\treturn intern(beta)\n}\n"}
	o1, o2 := c08Compile(progB), c08Compile(progB)
	c.nEval += 2
	if o1.Err != "" {
		c.Note("intern probe: program does not compile: %s", o1.Err)
		return
	}
	if o1.key() != o2.key() {
		c.Fail("c08:intern:fresh-params-differ", "two compilations of a program using intern() with fresh Params differ", map[string]interface{}{"program": progB})
	}
	// shared Params: A then B
	w := &c08Writer{}
	shared := c08Params(progB, w)
	c08CompileWith(compiler.New(shared), shared, w, progA)
	o3 := c08CompileWith(compiler.New(shared), shared, w, progB)
	// preset table equal to what A left behind
	w2 := &c08Writer{}
	preset := c08Params(progB, w2)
	preset.SymbolIDs["alpha"] = 0
	preset.SymbolIDs["gamma"] = 1
	o4 := c08CompileWith(compiler.New(preset), preset, w2, progB)
	c.nEval += 3
	if o3.key() != o4.key() {
		c.Fail("c08:Params.SymbolIDs:same-table-different-output", "two compilations whose Params hold the same SymbolIDs table differ",
			map[string]interface{}{"program": progB, "after_A": o3.SSA, "preset": o4.SSA, "ssa_diff_excerpt": c08DiffExcerpt(o3.ssaText, o4.ssaText)})
	}
	c.Hist(fmt.Sprintf("intern-probe:output-depends-on-SymbolIDs-table=%v", o3.key() != o1.key()))
	if o3.key() != o1.key() {
		c.Note("intern probe: with a Params object that already holds symbols {alpha:0, gamma:1} intern(beta) is 2 instead of 0 (circuit %s.. vs %s..): Params.SymbolIDs is parameter state; equal tables give equal outputs", o3.Circ[:12], o1.Circ[:12])
	}
}

// ---------------------------------------------------------------- run

func c08DiffExcerpt(a, b string) string {
	al, bl := strings.Split(a, "\n"), strings.Split(b, "\n")
	var sb strings.Builder
	n := 0
	for i := 0; i < len(al) || i < len(bl); i++ {
		var x, y string
		if i < len(al) {
			x = al[i]
		}
		if i < len(bl) {
			y = bl[i]
		}
		if x != y {
			if len(x) > 120 {
				x = x[:120] + "..."
			}
			if len(y) > 120 {
				y = y[:120] + "..."
			}
			sb.WriteString(fmt.Sprintf("line %d:\n- %s\n+ %s\n", i+1, x, y))
			n++
			if n >= 6 {
				break
			}
		}
	}
	return sb.String()
}

// c08SameUpToBlockOrder: the two listings consist of the same package init
// blocks in a different order, followed by the same main part up to renaming
// of nothing (exact text).
func c08SameUpToBlockOrder(a, b string) bool {
	split := func(s string) (map[string]int, string) {
		blocks := map[string]int{}
		lines := strings.Split(s, "\n")
		var cur []string
		inInit := false
		rest := ""
		for i, ln := range lines {
			if strings.HasPrefix(ln, "# Input") || strings.HasPrefix(ln, "# Output") {
				continue
			}
			if strings.HasPrefix(ln, "# ") {
				if inInit {
					blocks[strings.Join(cur, "\n")]++
				}
				cur = nil
				if c08LabelRe.MatchString(ln) {
					inInit = true
					cur = append(cur, ln)
					continue
				}
				rest = strings.Join(lines[i:], "\n")
				break
			}
			cur = append(cur, ln)
		}
		return blocks, rest
	}
	ba, ra := split(a)
	bb, rb := split(b)
	if ra != rb || len(ba) != len(bb) {
		return false
	}
	for k, v := range ba {
		if bb[k] != v {
			return false
		}
	}
	return true
}

func (c *c08State) listingSX(g *c08Graph, blocks []c08Block) SX {
	var items []SX
	for _, b := range blocks {
		items = append(items, L(I(g.id(b.Alias)), I(b.NLines), I(b.AnonBase)))
	}
	return L(items...)
}

func c08BlocksKey(blocks []c08Block) string {
	var sb strings.Builder
	for _, b := range blocks {
		sb.WriteString(fmt.Sprintf("%s/%d/%d;", b.Alias, b.NLines, b.AnonBase))
	}
	return sb.String()
}

func runC08(c *Ctx) error {
	t0 := time.Now()
	tmp, err := os.MkdirTemp("", "c08-")
	if err != nil {
		return err
	}
	defer os.RemoveAll(tmp)
	st := &c08State{c: c, tmp: tmp, soloCache: map[string][2]int{}}

	// the translator's inventory, for the evidence file
	if inv, err := msInventory(c08Repo()); err == nil {
		cnt := map[string]int{}
		for _, s := range inv.Sites {
			if s.Kind == "range" && s.Reachable {
				cnt[s.Class]++
				if s.Class == "OrderSensitive" {
					c.Note("order-sensitive map-range site on the compile path: %s %s (%s:%d) ranges over %s", s.Pkg, s.Func, s.File, s.Line, s.Expr)
				}
			}
		}
		c.Note("map-range sites on the compile path by class: %v; range statements by kind: %v", cnt, inv.Ranges)
	} else {
		c.Note("inventory failed: %v", err)
	}

	corpus := c08Corpus(!c.Thorough())
	for _, m := range c08MultiImports {
		corpus = append(corpus, c08MultiProgram(m))
	}
	ngen := c.N(24, 150)
	grng := c.rng.Fork()
	for i := 0; i < ngen; i++ {
		p, err := st.genProgram(grng.Fork(), i)
		if err != nil {
			return err
		}
		corpus = append(corpus, p)
	}

	nclash := c.N(8, 40)
	for i := 0; i < nclash; i++ {
		p, err := st.genClashProgram(grng.Fork(), i)
		if err != nil {
			return err
		}
		corpus = append(corpus, p)
	}

	for i, src := range c08DirectedWidthPrograms {
		corpus = append(corpus, &c08Prog{Name: fmt.Sprintf("widths-directed-%02d", i), Src: src, Kind: "const-widths"})
	}
	corpus = append(corpus, c08InternPrograms()...)
	for i, src := range c08ConstructPrograms {
		corpus = append(corpus, &c08Prog{Name: fmt.Sprintf("construct-%02d", i), Src: src, Kind: "constructs"})
	}
	for i, q := range c08OptionPrograms() {
		if strings.HasSuffix(q.Kind, "-file") {
			f := filepath.Join(tmp, fmt.Sprintf("opt%03d.mpcl", i))
			if err := os.WriteFile(f, []byte(q.Src), 0o644); err != nil {
				return err
			}
			q.File, q.Src = f, ""
		}
		corpus = append(corpus, q)
	}
	nwidth := c.N(16, 80)
	for i := 0; i < nwidth; i++ {
		corpus = append(corpus, c08GenWidthProgram(grng.Fork(), i))
	}

	// the cheap directed families first, the file corpus last (time budget)
	sort.SliceStable(corpus, func(i, j int) bool { return c08KindRank(corpus[i].Kind) < c08KindRank(corpus[j].Kind) })

	// an unrelated program compiled between runs (history)
	unrelated := []*c08Prog{
		{Name: "unrelated-1", Src: "package main\n\nimport (\n\t\"encoding/hex\"\n)\n\nfunc main(a, b uint16) uint16 {\n\treturn a * b + uint16(hex.Digits[3])\n}\n"},
		{Name: "unrelated-2", Src: "package main\n\nfunc main(a, b int32) int32 {\n\tif a > b {\n\t\treturn a - b\n\t}\n\treturn b - a\n}\n"},
	}

	kLow := c.N(6, 12)
	kHigh := c.N(128, 400)
	nChildren := c.N(2, 4)
	budget := time.Duration(c.N(150, 900)) * time.Second // guards against pathological slowness only: on a loaded machine a tight budget silently drops the file corpus

	type progRes struct {
		p         *c08Prog
		g         *c08Graph
		fresh     []c08Obs // fresh compiler observations (in process and children)
		reused    []c08Obs
		k         int
		consts    []c08Const
		constsErr error
		enough    bool
		compileT  time.Duration
	}
	var results []*progRes

	for _, p := range corpus {
		if time.Since(t0) > budget {
			c.Note("time budget reached after %d of %d programs", len(results), len(corpus))
			break
		}
		r := &progRes{p: p}
		if os.Getenv("C08_TRACE") != "" {
			fmt.Fprintf(os.Stderr, "fresh: %s\n", p.Name)
		}
		start := time.Now()
		first := c08Compile(p)
		r.compileT = time.Since(start)
		if os.Getenv("C08_TIMING") != "" {
			fmt.Fprintf(os.Stderr, "%8.1fms %s err=%q\n", float64(r.compileT.Microseconds())/1000, p.Name, first.Err)
			continue
		}
		if r.compileT > 1500*time.Millisecond && !c.Thorough() {
			c.Hist("skipped:slow")
			continue
		}
		r.fresh = append(r.fresh, first)
		if first.Err == "" {
			g, err := st.graphOf(p)
			if err != nil {
				c.Note("%s: import graph: %v", p.Name, err)
			} else {
				r.g = g
				// main's own package block (package-level variables of the program itself)
				for _, b := range c08Blocks(first.ssaText) {
					if b.Alias == "main" {
						g.Pkgs[""].NLines, g.Pkgs[""].NAnon = b.NLines, b.NAnon
					}
				}
			}
		}
		k := kLow
		if max := int((2 * time.Second) / (r.compileT + time.Millisecond)); k > max {
			k = max
		}
		if k < 2 {
			k = 2
		}
		if r.g != nil && r.g.maxFan() >= 2 {
			k = kHigh
			// keep slow multi-import programs within the budget
			if max := int((time.Duration(c.N(3, 8)) * time.Second) / (r.compileT + time.Millisecond)); k > max {
				k = max
			}
			if k < kLow {
				k = kLow
			}
		}
		if p.Kind == "constructs" && first.Err == "" {
			k = c.N(24, 60)
		}
		if (p.Kind == "const-widths" || p.Kind == "intern") && first.Err == "" {
			// a 10% minority ordering is missed by 96 compilations with probability 4e-5
			k = c.N(96, 200)
		}
		r.k = k
		if first.Err == "" {
			r.consts, r.constsErr = c08ConstTable(p)
		}
		for i := 1; i < k; i++ {
			if i%5 == 3 { // history: unrelated compilations first
				for j := 0; j <= i%2; j++ {
					c08Compile(unrelated[j])
				}
			}
			r.fresh = append(r.fresh, c08Compile(p))
		}
		results = append(results, r)
	}

	// separate processes
	exe, err := os.Executable()
	if err != nil {
		return err
	}
	var specs []c08Prog
	for _, r := range results {
		specs = append(specs, *r.p)
	}
	sb, _ := json.Marshal(specs)
	specFile := filepath.Join(tmp, "spec.json")
	if err := os.WriteFile(specFile, sb, 0o644); err != nil {
		return err
	}
	childRuns := 0
	for ch := 0; ch < nChildren; ch++ {
		outFile := filepath.Join(tmp, fmt.Sprintf("child%d.json", ch))
		cmd := exec.Command(exe, "c08child", "fresh", specFile, outFile)
		cmd.Env = os.Environ()
		if ch%2 == 1 { // another runtime environment: one P, four times as many collections
			cmd.Env = append(cmd.Env, "GOGC=25", "GOMAXPROCS=1")
		}
		cmd.Stdout, cmd.Stderr = nil, os.Stderr
		if err := cmd.Run(); err != nil {
			return fmt.Errorf("child process %d: %v", ch, err)
		}
		b, err := os.ReadFile(outFile)
		if err != nil {
			return err
		}
		var obs []c08Obs
		if err := json.Unmarshal(b, &obs); err != nil || len(obs) != len(results) {
			return fmt.Errorf("child process %d: bad output", ch)
		}
		for i := range obs {
			results[i].fresh = append(results[i].fresh, obs[i])
			childRuns++
		}
	}
	c.Note("child processes: %d, compilations in children: %d", nChildren, childRuns)

	// reused Compiler instances, in a child process: the stale state of a reused Compiler can
	// drive the compiler into a fatal (unrecoverable) runtime error
	crashed := map[int]string{}
	{
		outFile := filepath.Join(tmp, "reuse.jsonl")
		start := 0
		for attempt := 0; start < len(results) && attempt < 40; attempt++ {
			cmd := exec.Command(exe, "c08child", "reuse", specFile, outFile)
			cmd.Env = append(os.Environ(), fmt.Sprintf("C08_REUSE_START=%d", start))
			var errb bytes.Buffer
			cmd.Stdout, cmd.Stderr = nil, &errb
			runErr := cmd.Run()
			done := start
			if b, err := os.ReadFile(outFile); err == nil {
				for _, ln := range strings.Split(string(b), "\n") {
					if strings.TrimSpace(ln) == "" {
						continue
					}
					var rec struct {
						I   int      `json:"i"`
						Obs []c08Obs `json:"obs"`
					}
					if json.Unmarshal([]byte(ln), &rec) != nil || rec.I < 0 || rec.I >= len(results) {
						continue
					}
					for k := range rec.Obs {
						rec.Obs[k].ssaText = rec.Obs[k].SSAText
					}
					results[rec.I].reused = rec.Obs
					if rec.I+1 > done {
						done = rec.I + 1
					}
				}
			}
			if runErr == nil {
				break
			}
			// the child died while compiling program `done`
			if done < len(results) {
				msg := errb.String()
				first := strings.SplitN(msg, "\n", 4)
				crashed[done] = strings.Join(first[:min(len(first), 3)], " | ")
			}
			start = done + 1
		}
	}

	// ---- histories over the state that survives a compilation (reported first)
	if err := c08RunProcessHistories(c, tmp); err != nil {
		return err
	}
	c08RunHistories(c)
	c08RunConcurrent(c)

	// ---- option groups: print-only options and the streaming entry point
	{
		type gk struct{ base, opts string }
		byGroup := map[gk]*progRes{}
		for _, r := range results {
			if !strings.HasPrefix(r.p.Name, "opt:") || r.p.Opts.ViaStream || r.p.Opts.hasPrintOnly() {
				continue
			}
			ob, _ := json.Marshal(r.p.Opts)
			byGroup[gk{strings.SplitN(r.p.Name, " [", 2)[0] + fmt.Sprint(r.p.GMW, r.p.File != ""), string(ob)}] = r
		}
		for _, r := range results {
			if !strings.HasPrefix(r.p.Name, "opt:") {
				continue
			}
			base := strings.SplitN(r.p.Name, " [", 2)[0]
			o := r.p.Opts.printOnlyCleared()
			isStream := o.ViaStream
			o.ViaStream = false
			if !isStream && !r.p.Opts.hasPrintOnly() {
				continue
			}
			ob, _ := json.Marshal(o)
			ref := byGroup[gk{base + fmt.Sprint(r.p.GMW, r.p.File != ""), string(ob)}]
			if ref == nil {
				ref = byGroup[gk{base + fmt.Sprint(r.p.GMW, false), string(ob)}]
			}
			if ref == nil || len(ref.fresh) == 0 || len(r.fresh) == 0 {
				continue
			}
			a, b := ref.fresh[0], r.fresh[0]
			c.Eval("option-group:"+r.p.Name, true)
			if isStream {
				if a.SSA != b.SSA && a.Err == "" && b.Err == "" {
					c.Fail("c08:stream-door:listing-differs-from-Compile", fmt.Sprintf("%s: the SSA listing written by Compiler.Stream differs from the one written by Compile for the same source and parameters", r.p.Name),
						map[string]interface{}{"program": r.p, "compile_program": ref.p, "ssa_diff_excerpt": c08DiffExcerpt(a.ssaText, b.ssaText)})
				}
			} else if a.key() != b.key() {
				c.Fail("c08:option:print-only-changes-output", fmt.Sprintf("%s: Verbose/Diagnostics/MPCLCErrorLoc/Warn change the compiled output (compared with %s)", r.p.Name, ref.p.Name),
					map[string]interface{}{"program": r.p, "reference": ref.p,
						"with":             map[string]string{"circ": b.Circ, "ssa": b.SSA, "err": b.Err, "extra": b.Extra},
						"without":          map[string]string{"circ": a.Circ, "ssa": a.SSA, "err": a.Err, "extra": a.Extra},
						"ssa_diff_excerpt": c08DiffExcerpt(a.ssaText, b.ssaText)})
			}
		}
	}

	// ---- oracle and correspondence cases
	paramsMutReported := map[string]bool{}
	for ri, r := range results {
		p := r.p
		c.Hist("kind:" + p.Kind)
		distinct := map[string]int{}
		var reps []c08Obs
		for _, o := range r.fresh {
			if distinct[o.key()] == 0 {
				reps = append(reps, o)
			}
			distinct[o.key()]++
		}
		nontrivial := (r.g != nil && r.g.maxFan() >= 2) || ((p.Kind == "const-widths" || p.Kind == "intern") && r.fresh[0].Err == "")
		c.Eval(p.Name, nontrivial)
		for range r.fresh[1:] {
			c.nEval++
		}
		c.nEval += len(r.reused)
		if r.fresh[0].Err != "" {
			c.Hist("result:compile-error")
		} else {
			c.Hist("result:ok")
		}
		c.Hist(fmt.Sprintf("distinct-outputs:%d", len(distinct)))
		if r.g != nil {
			if r.g.clashes() > 0 {
				c.Hist(fmt.Sprintf("alias-clashes:%d", r.g.clashes()))
			}
			c.Hist(fmt.Sprintf("max-imports-in-one-package:%d", r.g.maxFan()))
		}

		// property oracle 1: fresh compilers (this process and children) agree
		if len(distinct) > 1 {
			a, b := reps[0], reps[1]
			what := ""
			switch {
			case a.Circ != b.Circ:
				what = "circuit bytes (Marshal) differ"
			case a.Bristol != b.Bristol:
				what = "Bristol bytes differ"
			case a.SSA != b.SSA:
				what = "SSA listing differs"
			case a.Extra != b.Extra:
				what = "a further output differs: Params.CircOut/CircDotOut/CircSvgOut/SSADotOut, Marshal after AssignLevels, or the saved symbol-id file"
			default:
				what = "error text differs"
			}
			key := "c08:unexplained:output-differs"
			if a.Err == "" && b.Err == "" && a.ssaText != "" && b.ssaText != "" {
				// init-block order: the listings differ, and only in the order of the package blocks
				if a.SSA != b.SSA && c08SameUpToBlockOrder(a.ssaText, b.ssaText) {
					key = "c08:Package.Init:imports-map-order"
					if a.Circ != b.Circ || a.Bristol != b.Bristol {
						key += ":circuit-differs"
					}
				}
			} else if a.Err != b.Err {
				key = "c08:unexplained:error-differs"
			}
			if key == "c08:unexplained:output-differs" && a.Err == "" && b.Err == "" && a.SSA == b.SSA && a.Circ != b.Circ && p.Kind != "const-widths" && p.Kind != "intern" {
				key = "c08:same-listing:circuit-differs"
			}
			if p.Kind == "intern" {
				key = "c08:intern:symbol-ids-differ"
				if a.Circ != b.Circ {
					key += ":circuit-differs"
				}
			}
			if p.Kind == "const-widths" && key == "c08:unexplained:output-differs" {
				key = "c08:same-constant-two-widths:listing-differs"
				if a.Circ != b.Circ {
					key = "c08:same-constant-two-widths:circuit-differs"
				}
			}
			if key == "c08:unexplained:output-differs" && a.Err == b.Err && a.Circ == b.Circ && a.Bristol == b.Bristol && a.SSA == b.SSA && a.Extra != b.Extra {
				key = "c08:output-writers:differ"
			}
			if r.g != nil && r.g.clashes() > 0 && key == "c08:unexplained:output-differs" {
				// two import paths share an alias: which one is parsed first decides the package the
				// alias denotes
				key = "c08:Compiler.parse:alias-clash-order"
				if a.Circ != b.Circ {
					key += ":circuit-differs"
				}
			}
			var counts []int
			for _, o := range reps {
				counts = append(counts, distinct[o.key()])
			}
			c.Fail(key, fmt.Sprintf("%s: %d distinct outputs in %d compilations of the same source with the same parameters (fresh Compiler each; %s)",
				p.Name, len(distinct), len(r.fresh), what),
				map[string]interface{}{"program": p, "compilations": len(r.fresh), "distinct": len(distinct), "counts": counts,
					"output_a":        map[string]string{"circ": a.Circ, "bristol": a.Bristol, "ssa": a.SSA, "err": a.Err},
					"output_b":        map[string]string{"circ": b.Circ, "bristol": b.Bristol, "ssa": b.SSA, "err": b.Err},
					"result_a_on_3_5": c08Eval(a.circ), "result_b_on_3_5": c08Eval(b.circ),
					"symbol_ids_a": a.SymTab, "symbol_ids_b": b.SymTab,
					"ssa_diff_excerpt": c08DiffExcerpt(a.ssaText, b.ssaText)})
		}

		// property oracle 5 (intern family, fresh table): ids are handed out in program order
		if p.Kind == "intern" && len(p.SymbolIDs) == 0 {
			for _, o := range r.fresh {
				if o.Err != "" || o.SymTab == nil {
					continue
				}
				bad := ""
				for i, sym := range p.Symbols {
					if id, ok := o.SymTab[sym]; !ok || id != i {
						bad = fmt.Sprintf("%s has id %d, expected %d", sym, id, i)
						break
					}
				}
				if bad != "" {
					c.Fail("c08:intern:ids-not-in-program-order", fmt.Sprintf("%s: with a fresh symbol table %s", p.Name, bad),
						map[string]interface{}{"program": p, "symbol_ids": o.SymTab})
					break
				}
			}
		}

		// property oracle 4: a compilation does not write its configuration (SymbolIDs is the
		// documented symbol table of intern(): parameter state by design)
		{
			mut := map[string]bool{}
			for _, o := range append(append([]c08Obs(nil), r.fresh...), r.reused...) {
				for _, f := range o.Mutated {
					if f != "SymbolIDs" {
						mut[f] = true
					}
				}
			}
			var fields []string
			for f := range mut {
				fields = append(fields, f)
			}
			sort.Strings(fields)
			for _, f := range fields {
				if !paramsMutReported[f] {
					paramsMutReported[f] = true
					c.Fail("c08:params-mutated-by-compilation:"+f, fmt.Sprintf("compiling %s changes the exported field %s of its *utils.Params", p.Name, f),
						map[string]interface{}{"program": p, "field": f})
				}
			}
		}

		// property oracle 3: the sort key of Program.DefineConstants (the name) is unique in the
		// constant table - the hypothesis of C08_define_constants, checked after every compilation
		if r.constsErr != nil {
			c.Note("%s: constant table: %v", p.Name, r.constsErr)
		}
		{
			byName := map[string][]c08Const{}
			for _, e := range r.consts {
				byName[e.Name] = append(byName[e.Name], e)
			}
			var dups [][]c08Const
			var names []string
			for n, l := range byName {
				if len(l) > 1 {
					names = append(names, n)
				}
			}
			sort.Strings(names)
			for _, n := range names {
				dups = append(dups, byName[n])
			}
			c.Hist(fmt.Sprintf("constant-table:tied-names=%v", len(dups) > 0))
			if len(dups) > 0 {
				c.Fail("c08:DefineConstants:sort-key-not-unique", fmt.Sprintf("%s: ssa.Program.Constants holds %d name(s) more than once (e.g. %s at %d and %d bits): DefineConstants sorts by name only and wires the first instance, so the map iteration order decides which width is wired",
					p.Name, len(dups), dups[0][0].Name, dups[0][0].Bits, dups[0][1].Bits),
					map[string]interface{}{"program": p, "tied_entries": dups, "table": r.consts})
			}
		}

		// property oracle 2: a reused Compiler gives what a fresh one gives
		freshKeys := map[string]bool{}
		for _, o := range r.fresh {
			freshKeys[o.key()] = true
		}
		if msg, ok := crashed[ri]; ok {
			c.Fail("c08:Compiler.reuse:fatal-runtime-error", fmt.Sprintf("%s: compiling again with a reused Compiler instance kills the process: %s", p.Name, msg),
				map[string]interface{}{"program": p, "stderr_head": msg})
		}
		for i, o := range r.reused {
			if freshKeys[o.key()] {
				continue
			}
			key := "c08:Compiler.reuse:output-differs"
			f := r.fresh[0]
			extra := ""
			var fres, rres string
			if o.Err == "" && f.Err == "" {
				fres, rres = c08Eval(f.circ), o.Eval
				switch {
				case len(c08Blocks(o.ssaText)) < len(c08Blocks(f.ssaText)):
					key = "c08:Compiler.reuse:package-init-skipped"
					extra = "the init blocks of the imported packages are missing"
					if fres != rres {
						key += ":wrong-result"
						extra += fmt.Sprintf("; the circuit computes %s instead of %s on inputs 3,5,..", rres, fres)
					}
				case c08SameUpToInstanceNumbers(f.ssaText, o.ssaText) && o.Circ == f.Circ:
					key = "c08:Compiler.reuse:func-instance-counter"
					extra = "block labels carry the instance counters of the cached functions (Name#1 instead of Name#0); circuit identical"
				}
			} else if o.Err != f.Err {
				key = "c08:Compiler.reuse:error-differs"
				extra = fmt.Sprintf("fresh: %q, reused: %q", f.Err, o.Err)
			}
			c.Fail(key, fmt.Sprintf("%s: compilation #%d with a reused Compiler instance differs from every compilation with a fresh Compiler (%s)", p.Name, i+1, extra),
				map[string]interface{}{"program": p, "reuse_index": i,
					"fresh":            map[string]string{"circ": f.Circ, "bristol": f.Bristol, "ssa": f.SSA, "err": f.Err, "result_on_3_5": fres},
					"reused":           map[string]string{"circ": o.Circ, "bristol": o.Bristol, "ssa": o.SSA, "err": o.Err, "result_on_3_5": rres},
					"ssa_diff_excerpt": c08DiffExcerpt(f.ssaText, o.ssaText)})
			break
		}

		// correspondence case
		if r.g == nil || r.fresh[0].Err != "" || r.g.orders() > 5000 {
			continue
		}
		g := r.g
		var pk []SX
		for _, path := range g.Paths {
			q := g.Pkgs[path]
			var imps []int
			var targets []SX
			for _, x := range q.Imports {
				imps = append(imps, g.id(x))
				targets = append(targets, L(I(g.id(x)), I(g.pathID(q.Targets[x]))))
			}
			pk = append(pk, L(I(g.id(q.Alias)), Ints(imps), I(q.NLines), I(q.NAnon), I(g.pathID(path)), L(targets...)))
		}
		seenL := map[string]bool{}
		var obsL []SX
		var keys []string
		byKey := map[string]SX{}
		for _, o := range r.fresh {
			if o.ssaText == "" { // child observations carry hashes only
				continue
			}
			bl := c08Blocks(o.ssaText)
			k := c08BlocksKey(bl)
			if !seenL[k] {
				seenL[k] = true
				keys = append(keys, k)
				byKey[k] = st.listingSX(g, bl)
			}
		}
		sort.Strings(keys)
		for _, k := range keys {
			obsL = append(obsL, byKey[k])
		}
		// listings with a reused Compiler (2nd and 3rd compilation)
		var reuseL []SX
		seenR := map[string]bool{}
		for ri2, o := range r.reused {
			if ri2 == 0 {
				continue
			}
			if o.Err != "" {
				continue
			}
			bl := c08Blocks(o.ssaText)
			if k := c08BlocksKey(bl); !seenR[k] {
				seenR[k] = true
				reuseL = append(reuseL, st.listingSX(g, bl))
			}
		}
		inProcess := 0
		for _, o := range r.fresh {
			if o.ssaText != "" {
				inProcess++
			}
		}
		checkSingle := inProcess >= 120 || g.maxFan() < 2
		// function instance numbers (generated programs: function names are unique by construction)
		var fids, instFresh, instReuse []int
		if p.Kind == "generated" {
			names, nums := c08Instances(r.fresh[0].ssaText)
			rank := append([]string(nil), names...)
			sort.Strings(rank)
			rank = uniqStrings(rank)
			for _, n := range names {
				fids = append(fids, sort.SearchStrings(rank, n)+1)
			}
			instFresh = nums
			if len(r.reused) >= 2 && r.reused[1].Err == "" {
				rn, rk := c08Instances(r.reused[1].ssaText)
				if strings.Join(rn, ",") == strings.Join(names, ",") {
					instReuse = rk
				} else {
					instReuse = []int{-1}
				}
			} else {
				instReuse = []int{-1}
			}
			c.Hist(fmt.Sprintf("function-instances:%d", len(names)))
		}
		// the constant table: (name id, bits) in key order
		var ctab []SX
		{
			var names []string
			for _, e := range r.consts {
				names = append(names, e.Name)
			}
			sort.Strings(names)
			names = uniqStrings(names)
			for _, e := range r.consts {
				ctab = append(ctab, L(I(sort.SearchStrings(names, e.Name)+1), I(e.Bits)))
			}
			if len(ctab) > 40 { // keep cases small; the oracle above checks the whole table
				ctab = ctab[:40]
			}
		}
		in := L(L(pk...), I(g.pathID("")), L(obsL...), Bool(checkSingle), L(reuseL...), Ints(fids), Ints(instFresh), Ints(instReuse), L(ctab...))
		members := make([]SX, len(obsL))
		for i := range members {
			members[i] = I(1)
		}
		single := I(2)
		if checkSingle {
			single = Bool(len(obsL) == 1)
		}
		rmembers := make([]SX, len(reuseL))
		for i := range rmembers {
			rmembers[i] = I(1)
		}
		c.Case(in, L(L(members...), I(1), single, L(rmembers...), I(1), I(1), I(1), I(1)))
		c.Hist(fmt.Sprintf("observed-init-orders:%d", len(obsL)))
		if len(obsL) > 1 {
			c.Sample(map[string]interface{}{"program": p.Name, "compilations": len(r.fresh), "distinct_outputs": len(distinct), "distinct_init_orders": len(obsL), "import_orders_possible": g.orders()})
		}
	}
	c08ProbeReaddir(c)
	c08ProbeSymbolIDs(c)
	c.Note("programs: %d, wall %.1fs", len(results), time.Since(t0).Seconds())
	return nil
}
