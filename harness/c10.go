package main

// C10 — GMW: every party outputs f(inputs); dealt triples are valid.
//
// Real gmw.Networks for 2..5 parties run in this process over 127.0.0.1 TCP,
// with random start order and injected delays.  Per configuration two
// networks are run: an online run (Connect, Run, Close; every party's outputs
// are projected) and a drain run (Connect, then Pool.Get with the AND counts
// of the circuit's levels plus extra counts at every party; the a/b/c share
// words are recorded).  gmw takes all its randomness from crypto/rand, so
// relations are compared, not bytes (see props/C10.json).

import (
	"fmt"
	"math/big"
	"net"
	"os"
	"runtime"
	"runtime/debug"
	"strings"
	"sync"
	"sync/atomic"
	"time"

	"github.com/markkurossi/mpc/circuit"
	"github.com/markkurossi/mpc/compiler"
	"github.com/markkurossi/mpc/compiler/circuits"
	"github.com/markkurossi/mpc/compiler/utils"
	"github.com/markkurossi/mpc/gmw"
)

func init() { register("c10", runC10) }

type c10Replay struct {
	Seed    uint64   `json:"seed"`
	Case    int      `json:"case"`
	Parties int      `json:"parties"`
	Kind    string   `json:"kind"`
	Source  string   `json:"source,omitempty"`
	Circuit string   `json:"circuit,omitempty"`
	Inputs  []string `json:"inputs"`
	Got     []string `json:"got,omitempty"`
	Want    string   `json:"want,omitempty"`
	Detail  string   `json:"detail,omitempty"`
}

// ---------------------------------------------------------------- circuits

type c10Circ struct {
	kind string
	src  string
	circ *circuit.Circuit
}

func c10MPCL(r *RNG, n int) string {
	w := r.Range(2, 18)
	if r.Intn(5) == 0 {
		w = r.Range(19, 33)
	}
	ty := fmt.Sprintf("uint%d", w)
	var sb strings.Builder
	sb.WriteString("package main\nfunc main(")
	for i := 0; i < n; i++ {
		if i > 0 {
			sb.WriteString(", ")
		}
		fmt.Fprintf(&sb, "p%d %s", i, ty)
	}
	fmt.Fprintf(&sb, ") %s {\n", ty)
	ops := []string{"+", "-", "*", "&", "|", "^", "+", "*"}
	if w <= 12 {
		ops = append(ops, "/", "%")
	}
	cmps := []string{"<", ">", "<=", ">=", "==", "!="}
	operand := func() string {
		if r.Intn(6) == 0 {
			return fmt.Sprintf("%d", r.Intn(1<<uint(minInt(w, 8))))
		}
		return fmt.Sprintf("p%d", r.Intn(n))
	}
	// every parameter is used
	sb.WriteString("\tr := p0")
	for i := 1; i < n; i++ {
		fmt.Fprintf(&sb, " %s p%d", ops[r.Intn(len(ops))], i)
	}
	sb.WriteString("\n")
	steps := r.Range(0, 4)
	for s := 0; s < steps; s++ {
		if r.Intn(3) == 0 {
			fmt.Fprintf(&sb, "\tif %s %s %s {\n\t\tr = r %s %s\n\t} else {\n\t\tr = r %s %s\n\t}\n",
				operand(), cmps[r.Intn(len(cmps))], operand(),
				ops[r.Intn(len(ops))], operand(), ops[r.Intn(len(ops))], operand())
		} else {
			fmt.Fprintf(&sb, "\tr = r %s %s\n", ops[r.Intn(len(ops))], operand())
		}
	}
	sb.WriteString("\treturn r\n}\n")
	return sb.String()
}

func minInt(a, b int) int {
	if a < b {
		return a
	}
	return b
}

func c10Try(f func()) (msg string) {
	defer func() {
		if e := recover(); e != nil {
			msg = fmt.Sprint(e)
		}
	}()
	f()
	return ""
}

// partition total bits among n parties, every party at least one bit
func c10Partition(r *RNG, total, n int) []int {
	sz := make([]int, n)
	for i := range sz {
		sz[i] = 1
	}
	for k := n; k < total; k++ {
		sz[r.Intn(n)]++
	}
	return sz
}

func c10IO(prefix string, sizes []int) circuit.IO {
	var io circuit.IO
	for i, s := range sizes {
		io = append(io, circuit.IOArg{Name: fmt.Sprintf("%s%d", prefix, i), Type: uintInfo(s)})
	}
	return io
}

// a builder circuit (circuits API, TargetGMW) whose operands do not coincide
// with the parties' input regions
func c10Builder(r *RNG, n int) (*c10Circ, error) {
	params := utils.NewParams()
	params.Target = utils.TargetGMW
	defer params.Close()
	w := r.Range(n, 24)
	if 2*w < n {
		w = n
	}
	ops := []string{"add", "sub", "mul", "udiv", "and-add", "lt-mux"}
	op := ops[r.Intn(len(ops))]
	if op == "udiv" && w > 12 {
		w = r.Range(3, 12)
	}
	calloc := circuits.NewAllocator()
	mk := func(k int, out bool) []*circuits.Wire {
		ws := make([]*circuits.Wire, k)
		for i := range ws {
			ws[i] = calloc.Wire()
			ws[i].SetOutput(out)
		}
		return ws
	}
	in := mk(2*w, false)
	nout := w
	if op == "udiv" {
		nout = 2 * w
	}
	out := mk(nout, true)
	inputs := c10IO("p", c10Partition(r, 2*w, n))
	outputs := c10IO("r", []int{nout})
	cc, err := circuits.NewCompiler(params, calloc, inputs, outputs, in, out)
	if err != nil {
		return nil, err
	}
	x, y := in[:w], in[w:]
	var circ *circuit.Circuit
	msg := c10Try(func() {
		switch op {
		case "add":
			err = circuits.NewAdder(cc, x, y, out)
		case "sub":
			err = circuits.NewSubtractor(cc, x, y, out)
		case "mul":
			err = circuits.NewMultiplier(cc, params.CircMultArrayTreshold, x, y, out)
		case "udiv":
			err = circuits.NewUDivider(cc, x, y, out[:w], out[w:])
		case "and-add":
			t := mk(w, false)
			err = circuits.NewBinaryAND(cc, x, y, t)
			if err == nil {
				err = circuits.NewAdder(cc, t, y, out)
			}
		case "lt-mux":
			cnd := mk(1, false)
			err = circuits.NewUintLtComparator(cc, x, y, cnd)
			if err == nil {
				err = circuits.NewMUX(cc, cnd, x, y, out)
			}
		}
		if err == nil {
			circ = cc.Compile()
		}
	})
	if msg != "" {
		return nil, fmt.Errorf("panic: %s", msg)
	}
	if err != nil {
		return nil, err
	}
	return &c10Circ{kind: "builder:" + op, circ: circ}, nil
}

// a raw layered single-assignment circuit over XOR/XNOR/AND/INV whose gate
// list is topologically ordered but NOT sorted by level; layer widths are not
// multiples of 64
func c10Raw(r *RNG, n int, tiny bool) *c10Circ {
	ni := r.Range(n, n+12)
	layers := r.Range(3, 14)
	maxw := 150
	if tiny {
		ni = r.Range(n, n+2)
		layers = r.Range(1, 3)
		maxw = 3
	}
	var gates []circuit.Gate
	next := ni
	avail := make([]int, ni)
	for i := range avail {
		avail[i] = i
	}
	for l := 0; l < layers; l++ {
		width := r.Range(1, maxw)
		if !tiny && r.Intn(3) == 0 {
			width = r.Range(60, 70) // around the word boundary
		}
		lo := len(avail) - 3*width - 8
		if lo < 0 || r.Intn(4) == 0 {
			lo = 0
		}
		var outs []int
		for k := 0; k < width; k++ {
			pick := func() int { return avail[lo+r.Intn(len(avail)-lo)] }
			var op circuit.Operation
			switch p := r.Intn(100); {
			case p < 50:
				op = circuit.AND
			case p < 75:
				op = circuit.XOR
			case p < 88:
				op = circuit.XNOR
			default:
				op = circuit.INV
			}
			g := circuit.Gate{Input0: circuit.Wire(pick()), Input1: circuit.Wire(pick()), Output: circuit.Wire(next), Op: op}
			if op == circuit.INV {
				g.Input1 = 0
			}
			if r.Intn(12) == 0 && op != circuit.INV {
				g.Input1 = g.Input0
			}
			gates = append(gates, g)
			outs = append(outs, next)
			next++
			// chains inside a layer: later gates of the layer may read this one
			if r.Intn(4) == 0 {
				avail = append(avail, outs[len(outs)-1])
				outs = outs[:len(outs)-1]
			}
		}
		avail = append(avail, outs...)
	}
	maxOut := next - ni
	if maxOut > 24 {
		maxOut = 24
	}
	no := r.Range(1, maxOut)
	c := &circuit.Circuit{NumGates: len(gates), NumWires: next, Gates: gates}
	c.Inputs = c10IO("p", c10Partition(r, ni, n))
	c.Outputs = c10IO("r", []int{no})
	for _, g := range gates {
		c.Stats[g.Op]++
	}
	kind := "raw"
	if tiny {
		kind = "raw-tiny"
	}
	return &c10Circ{kind: kind, circ: c}
}

// AND level sizes around the 64-bit word boundaries of andBatchFlush
var c10BoundarySizes = []int{1, 63, 64, 65, 127, 128, 129, 192, 256}

// c10Levelled builds a single-assignment circuit whose AND level l (as
// AssignLevels(TargetGMW) computes it) has exactly andSizes[l] gates: the
// first operand of every AND of level l > 0 is an AND output of level l-1.
// directed: nothing but the ANDs, outputs = all AND wires (every gate of a
// batch is observed on its own).  Otherwise XOR/XNOR/INV gates are mixed in
// and the outputs are XOR collectors over groups of 8 AND wires.
func c10Levelled(r *RNG, n int, andSizes []int, directed bool) *c10Circ {
	ni := r.Range(2*n, 2*n+8)
	var gates []circuit.Gate
	next := ni
	avail := make([]int, ni)
	for i := range avail {
		avail[i] = i
	}
	var prev, allAnds []int
	for _, k := range andSizes {
		var cur []int
		for j := 0; j < k; j++ {
			in0 := avail[r.Intn(len(avail))]
			if len(prev) > 0 {
				in0 = prev[j%len(prev)]
			}
			in1 := avail[r.Intn(len(avail))]
			gates = append(gates, circuit.Gate{Input0: circuit.Wire(in0), Input1: circuit.Wire(in1), Output: circuit.Wire(next), Op: circuit.AND})
			cur = append(cur, next)
			next++
		}
		avail = append(avail, cur...)
		allAnds = append(allAnds, cur...)
		prev = cur
		if !directed {
			for x := r.Intn(k/2 + 2); x > 0; x-- {
				op := []circuit.Operation{circuit.XOR, circuit.XOR, circuit.XNOR, circuit.INV}[r.Intn(4)]
				g := circuit.Gate{Input0: circuit.Wire(avail[r.Intn(len(avail))]), Input1: circuit.Wire(avail[r.Intn(len(avail))]), Output: circuit.Wire(next), Op: op}
				if op == circuit.INV {
					g.Input1 = 0
				}
				gates = append(gates, g)
				avail = append(avail, next)
				next++
			}
		}
	}
	no := len(allAnds)
	if !directed {
		// collectors: XOR of (about) 8 consecutive AND wires; the final gate
		// of every collector comes last so that the outputs are the last
		// wires.  Every group has at least two wires (total >= 2 here).
		var groups [][]int
		for i := 0; i < len(allAnds); i += 8 {
			end := i + 8
			if end > len(allAnds) {
				end = len(allAnds)
			}
			groups = append(groups, allAnds[i:end])
		}
		if lg := len(groups); lg >= 2 && len(groups[lg-1]) == 1 {
			groups[lg-2] = append(append([]int(nil), groups[lg-2]...), groups[lg-1]...)
			groups = groups[:lg-1]
		}
		var partial, last []int
		for _, grp := range groups {
			acc := grp[0]
			for _, w := range grp[1 : len(grp)-1] {
				gates = append(gates, circuit.Gate{Input0: circuit.Wire(acc), Input1: circuit.Wire(w), Output: circuit.Wire(next), Op: circuit.XOR})
				acc = next
				next++
			}
			partial = append(partial, acc)
			last = append(last, grp[len(grp)-1])
		}
		for i := range partial {
			gates = append(gates, circuit.Gate{Input0: circuit.Wire(partial[i]), Input1: circuit.Wire(last[i]), Output: circuit.Wire(next), Op: circuit.XOR})
			next++
		}
		no = len(partial)
	}
	c := &circuit.Circuit{NumGates: len(gates), NumWires: next, Gates: gates}
	c.Inputs = c10IO("p", c10Partition(r, ni, n))
	c.Outputs = c10IO("r", []int{no})
	for _, g := range gates {
		c.Stats[g.Op]++
	}
	kind := "raw-levels"
	if directed {
		kind = fmt.Sprintf("directed-levels%v", andSizes)
	}
	return &c10Circ{kind: kind, circ: c}
}

// c10RandomLevelSizes: 2..6 AND levels, sizes from the boundary set with
// probability 2/3
func c10RandomLevelSizes(r *RNG) []int {
	sz := make([]int, r.Range(2, 6))
	for i := range sz {
		if r.Intn(3) < 2 {
			sz[i] = c10BoundarySizes[r.Intn(len(c10BoundarySizes))]
		} else {
			sz[i] = r.Range(1, 200)
		}
	}
	return sz
}

type c10DirJob struct {
	n       int
	levels  []int
	allOnes bool
}

// c10DirectedJobs: for every boundary size a single-level and a two-level
// circuit, each for 2 and 3 parties and with all-one and random inputs
// (72 small online-only networks, in every tier).
func c10DirectedJobs(c *Ctx, r *RNG) []c10DirJob {
	var jobs []c10DirJob
	for _, k := range c10BoundarySizes {
		for _, n := range []int{2, 3} {
			for _, ones := range []bool{true, false} {
				k2 := c10BoundarySizes[r.Intn(len(c10BoundarySizes))]
				two := []int{k, k2}
				if r.Bool() {
					two = []int{k2, k}
				}
				jobs = append(jobs, c10DirJob{n, []int{k}, ones}, c10DirJob{n, two, ones})
			}
		}
	}
	return jobs
}

func c10GenCircuit(c *Ctx, r *RNG, n int, which int) *c10Circ {
	for attempt := 0; attempt < 20; attempt++ {
		switch which {
		case 0: // MPCL
			src := c10MPCL(r, n)
			params := utils.NewParams()
			params.Target = utils.TargetGMW
			params.Warn.DisableAll()
			params.OptPruneGates = r.Bool() // door: apps/garbled -O
			var circ *circuit.Circuit
			var err error
			msg := c10Try(func() { circ, _, err = compiler.New(params).Compile(src, nil) })
			params.Close()
			if msg != "" || err != nil || circ == nil {
				c.Hist("gen:mpcl-does-not-compile")
				continue
			}
			if circ.NumGates > 6000 || len(circ.Inputs) != n {
				c.Hist("gen:mpcl-rejected-size")
				continue
			}
			return &c10Circ{kind: "mpcl", src: src, circ: circ}
		case 1:
			cc, err := c10Builder(r, n)
			if err != nil || cc.circ.NumGates > 6000 {
				c.Hist("gen:builder-rejected")
				continue
			}
			return cc
		case 2:
			return c10Raw(r, n, false)
		case 4:
			return c10Levelled(r, n, c10RandomLevelSizes(r), false)
		default:
			return c10Raw(r, n, true)
		}
	}
	return c10Raw(r, n, false)
}

// ---------------------------------------------------------------- networks

func c10Ports(n int) ([]string, error) {
	addrs := make([]string, n)
	var ls []net.Listener
	for i := range addrs {
		l, err := net.Listen("tcp", "127.0.0.1:0")
		if err != nil {
			return nil, err
		}
		ls = append(ls, l)
		addrs[i] = l.Addr().String()
	}
	for _, l := range ls {
		l.Close()
	}
	return addrs, nil
}

type c10Get struct {
	Words   int
	A, B, C []uint64
}

type c10PartyResult struct {
	aborted atomic.Bool  // the party has returned with an error
	outs    [][]*big.Int // results of the runs of a sequence
	out     []*big.Int
	gets    []c10Get
	err     error
	step    string
	filled  uint64 // Pool.NumTriples once the generator stopped producing
	// online IOStats of this party after Connect [0] and after Run [1]
	// (single-Run networks): write segments (Flushed) and bytes (Sent)
	flushed [2]uint64
	sent    [2]uint64
	wlog    *c10WriteLog // leader, plan.logLeader: every Write of every accepted connection
}

type c10Plan struct {
	n       int
	circ    *circuit.Circuit
	inputs  []*big.Int
	drain   bool
	counts  []int
	delays  [][]int // per party: ms before join, connect, run/get, close
	order   []int   // start order of the non-leader parties
	timeout time.Duration
	// waitFill: after Connect wait until the offline phase has filled the
	// pool and the generator has parked (Pool.NumTriples stops growing)
	waitFill bool
	// seq: several Run calls on the one connected network (network reuse)
	seq []c10SeqRun
	// doors: less-travelled ways into the same functionality, chosen at random
	// per network (see notes/C10-findings.md, table Doors)
	doors uint64
	// logLeader: the leader is built with gmw.NewNetwork on a listener of the
	// harness whose connections record the size of every Write (c10skel.go)
	logLeader bool
}

const (
	c10DoorVerbose    = 1 << iota // Run(..., verbose = true)
	c10DoorNewNetwork             // leader built with gmw.NewNetwork on a listener of the harness
	c10DoorEarlyJoin              // party 1 tries JoinNetwork before the leader exists (error), then again
	c10DoorOneProc                // GOMAXPROCS(1) while the network runs
	c10DoorGC                     // GC percent 1 while the network runs
	c10DoorKeepDst                // drain: Pool.Get appends to a non-empty Triples
)

type c10SeqRun struct {
	circ   *circuit.Circuit
	inputs []*big.Int
}

// c10WaitFilled polls Pool.NumTriples (an unsynchronised statistics counter)
// until it has not changed for 500 ms, at most 30 s.
func c10WaitFilled(nw *gmw.Network) uint64 {
	last := nw.Pool.NumTriples
	stable := time.Now()
	deadline := time.Now().Add(30 * time.Second)
	for time.Now().Before(deadline) {
		time.Sleep(50 * time.Millisecond)
		cur := nw.Pool.NumTriples
		if cur != last {
			last = cur
			stable = time.Now()
		} else if cur > 0 && time.Since(stable) > 500*time.Millisecond {
			break
		}
	}
	return last
}

func c10Sleep(ms int) {
	if ms > 0 {
		time.Sleep(time.Duration(ms) * time.Millisecond)
	}
}

// c10RunNetwork runs one n-party network.  retry is set when the failure is
// the harness's own port allocation (address in use).
func c10RunNetwork(p *c10Plan) (res []c10PartyResult, stalled bool, retry bool) {
	addrs, err := c10Ports(p.n)
	if err != nil {
		return nil, false, true
	}
	res = make([]c10PartyResult, p.n)
	var wg sync.WaitGroup
	var barrier sync.WaitGroup // drain: nobody closes before everybody has its triples
	barrier.Add(p.n)
	leaderUp := make(chan struct{})
	earlyDone := make(chan struct{})
	if p.doors&c10DoorEarlyJoin == 0 || p.n < 2 {
		close(earlyDone)
	}
	if p.doors&c10DoorOneProc != 0 {
		defer runtime.GOMAXPROCS(runtime.GOMAXPROCS(1))
	}
	if p.doors&c10DoorGC != 0 {
		defer debug.SetGCPercent(debug.SetGCPercent(1))
	}
	verbose := p.doors&c10DoorVerbose != 0
	party := func(id int) {
		defer wg.Done()
		r := &res[id]
		defer func() {
			if r.err != nil {
				r.aborted.Store(true)
			}
		}()
		arrived := false
		arrive := func() {
			if !arrived {
				arrived = true
				barrier.Done()
			}
		}
		defer arrive()
		var nw *gmw.Network
		var err error
		c10Sleep(p.delays[id][0])
		r.step = "create/join"
		if id == 0 {
			<-earlyDone
			if p.doors&c10DoorNewNetwork != 0 || p.logLeader {
				var l net.Listener
				l, err = net.Listen("tcp", addrs[0])
				if err == nil {
					if p.logLeader {
						r.wlog = &c10WriteLog{}
						l = &c10LogListener{Listener: l, log: r.wlog}
					}
					nw = gmw.NewNetwork(p.n, l, &gmw.Peer{})
				}
			} else {
				nw, err = gmw.CreateNetwork(addrs[0], p.n)
			}
			close(leaderUp)
		} else {
			if id == 1 && p.doors&c10DoorEarlyJoin != 0 {
				// nobody listens at the leader's address yet: an error, not a hang
				if enw, eerr := gmw.JoinNetwork(addrs[0], addrs[id], id); eerr == nil {
					enw.Close()
					close(earlyDone)
					r.step = "api:JoinNetwork-before-leader:no-error"
					r.err = fmt.Errorf("JoinNetwork succeeded although nothing listens at the leader's address")
					return
				}
				close(earlyDone)
			}
			<-leaderUp
			nw, err = gmw.JoinNetwork(addrs[0], addrs[id], id)
		}
		if err != nil {
			r.err = err
			return
		}
		c10Sleep(p.delays[id][1])
		r.step = "connect"
		if err = nw.Connect([]int{int(p.circ.Inputs[id].Type.Bits)}); err != nil {
			r.err = err
			return
		}
		if nw.NumParties() != p.n {
			r.step = "api:NumParties"
			r.err = fmt.Errorf("NumParties() = %d after Connect, %d parties", nw.NumParties(), p.n)
			return
		}
		if is := nw.InputSizes(); len(is) != p.n {
			r.step = "api:InputSizes"
			r.err = fmt.Errorf("InputSizes() has %d entries after Connect, %d parties", len(is), p.n)
			return
		} else {
			for q := 0; q < p.n; q++ {
				if len(is[q]) != 1 || is[q][0] != int(p.circ.Inputs[q].Type.Bits) {
					r.step = "api:InputSizes"
					r.err = fmt.Errorf("party %d: InputSizes()[%d] = %v after Connect, party %d passed [%d]", id, q, is[q], q, p.circ.Inputs[q].Type.Bits)
					return
				}
			}
		}
		c10Sleep(p.delays[id][2])
		if p.waitFill {
			r.step = "wait-filled"
			r.filled = c10WaitFilled(nw)
		}
		if p.drain {
			r.step = "get"
			tr := new(gmw.Triples)
			for gi, cnt := range p.counts {
				// door: the destination still holds the words of the previous Get
				pw := tr.Words
				pa := append([]uint64(nil), tr.A[:pw]...)
				pb := append([]uint64(nil), tr.B[:pw]...)
				pc := append([]uint64(nil), tr.C[:pw]...)
				nw.Pool.Get(cnt, tr)
				for w := 0; w < pw; w++ {
					if tr.Words < pw || tr.A[w] != pa[w] || tr.B[w] != pb[w] || tr.C[w] != pc[w] {
						r.step = "api:Triples.Append:dst-nonempty"
						r.err = fmt.Errorf("Get #%d (count %d) into a Triples holding %d words changed word %d of them", gi, cnt, pw, w)
						return
					}
				}
				g := c10Get{Words: tr.Words - pw}
				g.A = append([]uint64(nil), tr.A[pw:tr.Words]...)
				g.B = append([]uint64(nil), tr.B[pw:tr.Words]...)
				g.C = append([]uint64(nil), tr.C[pw:tr.Words]...)
				r.gets = append(r.gets, g)
				if p.doors&c10DoorKeepDst == 0 || gi%2 == 1 || tr.Words > 300 {
					tr.Clear()
				}
				if (gi+id)%3 == 0 {
					c10Sleep(p.delays[id][2] / 4)
				}
			}
			arrive()
			barrier.Wait()
		} else if len(p.seq) > 0 {
			for k, sr := range p.seq {
				r.step = fmt.Sprintf("run%d", k)
				before := new(big.Int).Set(sr.inputs[id])
				o, err := nw.Run(sr.inputs[id], sr.circ, verbose && k%2 == 0)
				if err != nil {
					r.err = err
					return
				}
				if before.Cmp(sr.inputs[id]) != 0 {
					r.step = "api:Run-changes-its-input"
					r.err = fmt.Errorf("run %d: the input big.Int was %s before Run and is %s after", k, before.Text(16), sr.inputs[id].Text(16))
					return
				}
				r.outs = append(r.outs, o)
				if (k+id)%2 == 0 {
					c10Sleep(p.delays[id][2] / 2)
				}
			}
		} else {
			r.step = "run"
			before := new(big.Int).Set(p.inputs[id])
			on0, _ := nw.Stats()
			r.flushed[0], r.sent[0] = on0.Flushed.Load(), on0.Sent.Load()
			r.out, err = nw.Run(p.inputs[id], p.circ, verbose)
			if err != nil {
				r.err = err
				return
			}
			on1, _ := nw.Stats()
			r.flushed[1], r.sent[1] = on1.Flushed.Load(), on1.Sent.Load()
			if before.Cmp(p.inputs[id]) != 0 {
				r.step = "api:Run-changes-its-input"
				r.err = fmt.Errorf("the input big.Int was %s before Run and is %s after", before.Text(16), p.inputs[id].Text(16))
				return
			}
			if on, off := nw.Stats(); on.Sum() == 0 || off.Sum() == 0 {
				r.step = "api:Stats"
				r.err = fmt.Errorf("Stats() after Run: online %d bytes, offline %d bytes", on.Sum(), off.Sum())
				return
			}
		}
		c10Sleep(p.delays[id][3])
		r.step = "close"
		if err = nw.Close(); err != nil {
			r.err = err
			return
		}
		r.step = "done"
	}
	wg.Add(p.n)
	go party(0)
	for _, id := range p.order {
		go party(id)
	}
	done := make(chan struct{})
	go func() { wg.Wait(); close(done) }()
	// a party that stopped with an error leaves its peers blocked: do not wait
	// for the watchdog then
	failed := make(chan struct{})
	go func() {
		for {
			select {
			case <-done:
				return
			case <-time.After(200 * time.Millisecond):
			}
			for i := range res {
				if res[i].aborted.Load() {
					close(failed)
					return
				}
			}
		}
	}()
	select {
	case <-done:
	case <-failed:
		select {
		case <-done:
			return res, false, c10AddrInUse(res)
		case <-time.After(2 * time.Second):
		}
		// the other parties are blocked on the failed one: report them with
		// the failing party's step (their goroutines are abandoned)
		out := make([]c10PartyResult, p.n)
		var ferr error
		fstep := ""
		for i := range res {
			if res[i].aborted.Load() {
				ferr, fstep = res[i].err, res[i].step
			}
		}
		for i := range res {
			if res[i].aborted.Load() {
				out[i].err, out[i].step = res[i].err, res[i].step
			} else {
				out[i].err, out[i].step = fmt.Errorf("blocked: a peer stopped with: %v", ferr), fstep
			}
		}
		return out, false, c10AddrInUse(out)
	case <-time.After(p.timeout):
		return res, true, false
	}
	return res, false, c10AddrInUse(res)
}

func c10AddrInUse(res []c10PartyResult) bool {
	for i := range res {
		if res[i].err != nil && strings.Contains(res[i].err.Error(), "address already in use") {
			return true
		}
	}
	return false
}

// ---------------------------------------------------------------- encoding

func c10Words(ws []uint64) SX {
	l := make([]SX, len(ws))
	for i, w := range ws {
		l[i] = U64(w)
	}
	return L(l...)
}

func c10BitsOf(v *big.Int, n int) []bool {
	b := make([]bool, n)
	for i := range b {
		b[i] = v.Bit(i) == 1
	}
	return b
}

func c10RandBits(r *RNG, n int) []bool {
	b := make([]bool, n)
	for i := range b {
		b[i] = r.Bool()
	}
	return b
}

func c10RandWords(r *RNG, n int) []uint64 {
	w := make([]uint64, n)
	for i := range w {
		w[i] = r.U64()
		if r.Intn(16) == 0 {
			w[i] = ^uint64(0)
		}
	}
	return w
}

func c10PoolsSX(r *RNG, n, nbatches int) SX {
	pools := make([]SX, n)
	for p := range pools {
		k0 := r.Intn(nbatches + 1)
		if r.Intn(3) == 0 {
			k0 = 0
		}
		sl := r.Intn(12)
		sched := make([]int, sl)
		for i := range sched {
			if r.Intn(3) == 0 {
				sched[i] = r.Intn(4)
			}
		}
		pools[p] = L(I(k0), Ints(sched))
	}
	return L(pools...)
}

func c10RndSX(r *RNG, sizes []int) SX {
	n := len(sizes)
	rows := make([]SX, n)
	for p := 0; p < n; p++ {
		row := make([]SX, n)
		for q := 0; q < n; q++ {
			ln := sizes[p]
			switch r.Intn(6) {
			case 0:
				ln = r.Intn(sizes[p] + 1) // short: big.Int with leading zero bits
			case 1:
				ln = sizes[p] + r.Intn(8) // the unused bits of the last random byte
			}
			row[q] = Bits(c10RandBits(r, ln))
		}
		rows[p] = L(row...)
	}
	return L(rows...)
}

func c10FirstDiff(got []string, want string) int {
	for _, g := range got {
		for i := 0; i < len(g) && i < len(want); i++ {
			if g[i] != want[i] {
				return i
			}
		}
	}
	return -1
}

// c10AbsInputs: what a party would share if it took big.Int.Bytes() (the
// absolute value) of a negative input instead of its bit pattern
func c10AbsInputs(in []*big.Int) ([]*big.Int, bool) {
	out := make([]*big.Int, len(in))
	neg := false
	for i, v := range in {
		out[i] = v
		if v.Sign() < 0 {
			neg = true
			out[i] = new(big.Int).Abs(v)
		}
	}
	return out, neg
}

// c10PatternInputs: the non-negative integers with the same low n bits
func c10PatternInputs(circ *circuit.Circuit, in []*big.Int) []*big.Int {
	out := make([]*big.Int, len(in))
	for i, v := range in {
		n := int(circ.Inputs[i].Type.Bits)
		w := new(big.Int)
		for b := 0; b < n; b++ {
			w.SetBit(w, b, v.Bit(b))
		}
		out[i] = w
	}
	return out
}

// c10NegKey: a wrong result that equals f(|x|, ...) for negative inputs x
func c10NegKey(circ *circuit.Circuit, in []*big.Int, got []string, key string) string {
	abs, neg := c10AbsInputs(in)
	if !neg {
		return key
	}
	w, err := circ.Compute(abs)
	if err != nil {
		return key
	}
	wa := bitsString(JoinOutputs(circ, w))
	if w0, err := circ.Compute(in); err != nil || bitsString(JoinOutputs(circ, w0)) == wa {
		return key // f(|x|) = f(x) here: the absolute value explains nothing
	}
	for _, g := range got {
		if g != wa {
			return key
		}
	}
	return "c10:input:negative-big-int:wrong-output"
}

type c10SignedJob struct {
	n    int
	src  string
	args []string // decimal inputs, parsed by IOArg.Parse
}

// c10SignedJobs: compiled programs with intN arguments and negative decimal
// inputs, as apps/garbled -gmw -i -5 hands them to Network.Run
func c10SignedJobs(c *Ctx, r *RNG) []c10SignedJob {
	progs := []struct {
		w    int
		body string
	}{
		{8, "return a + b"},
		{13, "if a < b {\n\t\treturn b - a\n\t}\n\treturn a * b"},
		{32, "return a - b"},
		{8, "return a * b"},
		{13, "return (a + b) & b"},
		{32, "if a > b {\n\t\treturn a\n\t}\n\treturn b"},
	}
	cnt := c.N(3, 6)
	var jobs []c10SignedJob
	for k := 0; k < cnt; k++ {
		pg := progs[(k+int(c.Seed))%len(progs)]
		n := 2 + k%2
		params := "a, b"
		body := pg.body
		if n == 3 {
			params = "a, b, c"
			body = strings.Replace(body, "return a + b", "return a + b + c", 1)
			body = strings.Replace(body, "return a - b", "return a - b - c", 1)
		}
		src := fmt.Sprintf("package main\nfunc main(%s int%d) int%d {\n\t%s\n}\n", params, pg.w, pg.w, body)
		args := make([]string, n)
		lim := 1 << uint(minInt(pg.w, 30)-1)
		for p := range args {
			v := -(1 + r.Intn(lim))
			if k%3 == 2 && p == 1 {
				v = r.Intn(lim) // mixed signs
			}
			if r.Intn(4) == 0 {
				v = -lim // the most negative value
			}
			args[p] = fmt.Sprintf("%d", v)
		}
		jobs = append(jobs, c10SignedJob{n: n, src: src, args: args})
	}
	return jobs
}

// ---------------------------------------------------------------- runner

func runC10(c *Ctx) error {
	devnull, _ := os.OpenFile(os.DevNull, os.O_WRONLY, 0)
	saved := os.Stdout
	if devnull != nil {
		os.Stdout = devnull // gmw prints "New peer ..." lines
		defer func() { os.Stdout = saved; devnull.Close() }()
	}
	nconf := c.N(12, 110) // two networks per configuration
	timeout := 40 * time.Second
	directed := c10DirectedJobs(c, c.rng.Fork())
	signed := c10SignedJobs(c, c.rng.Fork())
	for i := 0; i < nconf+len(directed)+len(signed); i++ {
		r := c.rng.Fork()
		var dj *c10DirJob
		var sj *c10SignedJob
		if i >= nconf+len(directed) {
			sj = &signed[i-nconf-len(directed)]
		} else if i >= nconf {
			dj = &directed[i-nconf]
		}
		n := 2 + i%4
		which := []int{0, 1, 2, 3, 4, 1, 2, 0, 4}[i%9]
		if c.Thorough() && i >= 94 {
			which = 3
			n = 2
		}
		var cc *c10Circ
		if sj != nil {
			n = sj.n
			params := utils.NewParams()
			params.Target = utils.TargetGMW
			params.Warn.DisableAll()
			var sc *circuit.Circuit
			var err error
			msg := c10Try(func() { sc, _, err = compiler.New(params).Compile(sj.src, nil) })
			params.Close()
			if msg != "" || err != nil || sc == nil || len(sc.Inputs) != n {
				return fmt.Errorf("signed program does not compile: %v %s\n%s", err, msg, sj.src)
			}
			cc = &c10Circ{kind: "mpcl-signed", src: sj.src, circ: sc}
		} else if dj != nil {
			n = dj.n
			cc = c10Levelled(r, n, dj.levels, true)
		} else {
			cc = c10GenCircuit(c, r, n, which)
		}
		circ := cc.circ
		circ.AssignLevels(utils.TargetGMW)
		if r.Bool() {
			circ.AssignLevels(utils.TargetGMW) // door: levelled twice (idempotent)
		}
		sizes := make([]int, n)
		total := 0
		for p := 0; p < n; p++ {
			sizes[p] = int(circ.Inputs[p].Type.Bits)
			total += sizes[p]
		}
		// inputs: random, with all-zero / all-one parties mixed in
		inputs := make([]*big.Int, n)
		for p := 0; p < n; p++ {
			v := new(big.Int)
			mode := r.Intn(8)
			for b := 0; b < sizes[p]; b++ {
				if dj != nil {
					mode = 2
					if dj.allOnes {
						mode = 1
					}
				}
				if mode == 0 {
					continue
				}
				if mode == 1 || r.Bool() {
					v.SetBit(v, b, 1)
				}
			}
			// half of the time the NEGATIVE big.Int with the same low bits:
			// Run reads inputs through Bit(i), it must behave identically
			if r.Bool() {
				v = negRep(v, sizes[p])
			} else if r.Intn(3) == 0 {
				// door: a value wider than the argument; only the low Bits bits count
				g := new(big.Int).SetUint64(r.U64() | 1)
				v = new(big.Int).Or(v, g.Lsh(g, uint(sizes[p])))
				c.Hist("inputs:wider-than-the-argument")
			}
			inputs[p] = v
			if sj != nil {
				pv, perr := circ.Inputs[p].Parse([]string{sj.args[p]})
				if perr != nil {
					return fmt.Errorf("signed program: Parse(%q): %v", sj.args[p], perr)
				}
				inputs[p] = pv
			}
		}
		inStr := make([]string, n)
		var flat []bool
		for p := 0; p < n; p++ {
			inStr[p] = inputs[p].Text(16)
			flat = append(flat, c10BitsOf(inputs[p], sizes[p])...)
		}
		want, cerr := circ.Compute(inputs)
		if cerr != nil {
			return fmt.Errorf("case %d: Compute: %v", i, cerr)
		}
		wantBits := JoinOutputs(circ, want)
		if wp, perr := circ.Compute(c10PatternInputs(circ, inputs)); perr != nil || bitsString(JoinOutputs(circ, wp)) != bitsString(wantBits) {
			c.Fail("c10:Compute:negative-big-int-differs-from-bit-pattern", "Circuit.Compute on a negative big.Int differs from Compute on its two's complement bit pattern",
				c10Replay{Seed: c.Seed, Case: i, Parties: n, Kind: cc.kind, Source: cc.src, Inputs: inStr})
		}
		if _, neg := c10AbsInputs(inputs); neg {
			c.Hist("inputs:some-negative-big-int")
		}
		if bitsString(wantBits) != bitsString(TruthEval(circ, flat)) {
			c.Fail("c10:Compute-differs-from-truth-table", "Circuit.Compute differs from gate-by-gate evaluation",
				c10Replay{Seed: c.Seed, Case: i, Parties: n, Kind: cc.kind, Source: cc.src, Inputs: inStr})
		}
		// level statistics
		nlev := int(circ.Stats[circuit.NumLevels]) + 1
		andsPer := make([]int, nlev)
		levels := make([]int, len(circ.Gates))
		for gi, g := range circ.Gates {
			levels[gi] = int(g.Level)
			if g.Op == circuit.AND {
				andsPer[g.Level]++
			}
		}
		var counts []int
		wordsNeeded := 0
		multiWord, offWord := false, false
		for _, k := range andsPer {
			if k > 0 {
				counts = append(counts, k)
				wordsNeeded += (k + 63) / 64
				if k > 64 {
					multiWord = true
				}
				if k%64 != 0 {
					offWord = true
				}
			}
		}
		c.Hist(fmt.Sprintf("parties:%d", n))
		c.Hist("kind:" + cc.kind)
		c.Hist(fmt.Sprintf("and-levels:%d", (len(counts)/4)*4))
		c.Hist(fmt.Sprintf("gates:%d", (len(circ.Gates)/500)*500))
		if multiWord {
			c.Hist("level-with-more-than-64-ANDs")
		}
		if offWord {
			c.Hist("level-AND-count-not-multiple-of-64")
		}
		mkDelays := func() ([][]int, []int) {
			d := make([][]int, n)
			style := r.Intn(4)
			if dj != nil {
				style = 0
			}
			for p := range d {
				d[p] = make([]int, 4)
				for k := range d[p] {
					switch style {
					case 0: // everybody fast
					case 1: // one slow party
						if p == i%n {
							d[p][k] = r.Intn(60)
						}
					default:
						if r.Intn(2) == 0 {
							d[p][k] = r.Intn(25)
						}
					}
				}
			}
			order := make([]int, 0, n-1)
			for p := 1; p < n; p++ {
				order = append(order, p)
			}
			for k := len(order) - 1; k > 0; k-- {
				j := r.Intn(k + 1)
				order[k], order[j] = order[j], order[k]
			}
			return d, order
		}
		dims, gs := CircuitSX(circ)
		insx := make([]SX, n)
		for p := 0; p < n; p++ {
			insx[p] = Bits(c10BitsOf(inputs[p], sizes[p]))
		}
		replay := c10Replay{Seed: c.Seed, Case: i, Parties: n, Kind: cc.kind, Source: cc.src, Inputs: inStr,
			Want: bitsString(wantBits)}
		if cc.src == "" && len(circ.Gates) <= 400 {
			replay.Circuit = circuitText(circ)
		}
		nontrivial := circ.Stats[circuit.AND] > 0
		keyBase := fmt.Sprintf("%d|%s|%s|%s", n, cc.kind, circuitText(circ), strings.Join(inStr, ","))

		// ------------------------------------------------ online run
		var res []c10PartyResult
		var stalled bool
		onlineDoors := r.U64() & r.U64()
		drainDoors := r.U64() & (r.U64() | c10DoorKeepDst)
		for attempt := 0; attempt < 4; attempt++ {
			d, order := mkDelays()
			var retry bool
			res, stalled, retry = c10RunNetwork(&c10Plan{n: n, circ: circ, inputs: inputs, delays: d, order: order, timeout: timeout, doors: onlineDoors})
			if !retry {
				break
			}
			c.Hist("harness:port-retry")
		}
		c.Eval("online|"+keyBase, nontrivial)
		for b, nm := range []string{"Run-verbose", "NewNetwork-leader", "JoinNetwork-before-leader-then-retry", "GOMAXPROCS=1", "GC-percent=1"} {
			if onlineDoors&(1<<uint(b)) != 0 {
				c.Hist("door:" + nm)
			}
		}
		ok := true
		outsx := make([]SX, n)
		var gotStr []string
		if stalled {
			ok = false
			var steps []string
			for p := range res {
				steps = append(steps, fmt.Sprintf("%d:%s", p, res[p].step))
			}
			rp := replay
			rp.Detail = "online run did not finish within " + timeout.String() + "; parties at " + strings.Join(steps, " ")
			c.Fail(fmt.Sprintf("c10:online:stalled:parties=%d", n), "GMW network stalled", rp)
		} else {
			for p := range res {
				if res[p].err != nil {
					ok = false
					rp := replay
					rp.Detail = fmt.Sprintf("party %d failed at %s: %v", p, res[p].step, res[p].err)
					c.Fail(fmt.Sprintf("c10:online:error:%s", res[p].step), "GMW party returned an error", rp)
					continue
				}
				got := JoinOutputs(circ, res[p].out)
				gotStr = append(gotStr, bitsString(got))
				outsx[p] = Bits(got)
				if bitsString(got) != bitsString(wantBits) {
					ok = false
				}
			}
			if ok {
				// outputs fine: one write segment per peer and exchange (c10skel.go)
				c10FlushOracle(c, n, circ, res, replay)
			} else if len(gotStr) == n {
				rp := replay
				rp.Got = gotStr
				rp.Detail = fmt.Sprintf("AND gates per level (batch sizes of andBatchFlush): %v; first wrong output bit %d", counts, c10FirstDiff(gotStr, bitsString(wantBits)))
				key := fmt.Sprintf("c10:online:wrong-output:kind=%s", cc.kind)
				if dj != nil || cc.kind == "raw-levels" {
					key = "c10:and-batch:len%64!=0"
					for _, k := range counts {
						if k%64 == 0 {
							key = "c10:and-batch:len%64==0"
						}
					}
				}
				key = c10NegKey(circ, inputs, gotStr, key)
				if key == "c10:input:negative-big-int:wrong-output" {
					rp.Detail += "; inputs are hex big.Ints, negative ones as -|x|; every party's output equals Circuit.Compute on the ABSOLUTE values of the negative inputs"
				}
				c.Fail(key, "a party's GMW output differs from Circuit.Compute", rp)
			}
		}
		if ok {
			// model case, mode 0: the model deals its own triples from COT data
			var batches []SX
			have := 0
			for have < wordsNeeded+r.Intn(3) || len(batches) == 0 {
				w := r.Range(1, 9)
				if r.Intn(4) == 0 {
					w = r.Range(1, 3)
				}
				a := make([]SX, n)
				b := make([]SX, n)
				sbs := make([]SX, n)
				dls := make([]SX, n)
				for p := 0; p < n; p++ {
					a[p] = c10Words(c10RandWords(r, w))
					b[p] = c10Words(c10RandWords(r, w))
					row := make([]SX, n)
					for q := 0; q < n; q++ {
						row[q] = c10Words(c10RandWords(r, w))
					}
					sbs[p] = L(row...)
					dls[p] = Bits(c10RandBits(r, n))
				}
				batches = append(batches, L(I(w), L(a...), L(b...), L(sbs...), L(dls...)))
				have += w
			}
			in := L(I(0), dims, gs, Ints(sizes), L(insx...), c10RndSX(r, sizes), L(batches...), c10PoolsSX(r, n, len(batches)))
			obs := L(L(outsx...), Ints(levels), I(nlev-1), I(int(circ.Stats[circuit.MaxWidth])), Bits(wantBits), I(1))
			c.Case(in, obs)
			if i < 3 {
				c.Sample(map[string]interface{}{"parties": n, "kind": cc.kind, "source": cc.src, "inputs": inStr,
					"outputs": gotStr, "and_per_level": counts})
			}
		}

		if dj != nil || sj != nil {
			continue // directed batch-size circuits and signed programs: online run only
		}

		// ------------------------------------------------ drain run
		dcounts := append([]int(nil), counts...)
		extraWords := 0
		for k := r.Intn(4); k > 0 && wordsNeeded+extraWords < 150; k-- {
			var e int
			switch r.Intn(6) {
			case 0:
				e = 4096 + r.Range(1, 700) // more than the first batch holds
			case 1:
				e = 64 * r.Range(1, 3)
			case 2:
				e = 64*r.Range(0, 2) + 1
			case 3:
				e = 64*r.Range(1, 3) - 1
			default:
				e = r.Range(1, 300)
			}
			dcounts = append(dcounts, e)
			extraWords += (e + 63) / 64
		}
		if len(dcounts) == 0 {
			dcounts = []int{r.Range(1, 130)}
		}
		for attempt := 0; attempt < 4; attempt++ {
			d, order := mkDelays()
			var retry bool
			res, stalled, retry = c10RunNetwork(&c10Plan{n: n, circ: circ, drain: true, counts: dcounts, delays: d, order: order, timeout: timeout, doors: drainDoors})
			if !retry {
				break
			}
			c.Hist("harness:port-retry")
		}
		c.Eval("drain|"+keyBase+fmt.Sprint(dcounts), true)
		rp := c10Replay{Seed: c.Seed, Case: i, Parties: n, Kind: "drain", Detail: fmt.Sprintf("counts=%v", dcounts)}
		if stalled {
			var steps []string
			for p := range res {
				steps = append(steps, fmt.Sprintf("%d:%s(%d gets)", p, res[p].step, len(res[p].gets)))
			}
			rp.Detail += "; did not finish within " + timeout.String() + "; parties at " + strings.Join(steps, " ")
			c.Fail(fmt.Sprintf("c10:drain:stalled:parties=%d", n), "triple pool drain stalled", rp)
			continue
		}
		dok := true
		for p := range res {
			if res[p].err != nil {
				dok = false
				rq := rp
				rq.Detail += fmt.Sprintf("; party %d failed at %s: %v", p, res[p].step, res[p].err)
				c.Fail(fmt.Sprintf("c10:drain:error:%s", res[p].step), "GMW party returned an error", rq)
			}
		}
		if !dok {
			continue
		}
		// oracle: word ranges and the triple relation, computed here
		totalWords := 0
		badRange, badTriple := "", ""
		for gi, cnt := range dcounts {
			wantW := (cnt + 63) / 64
			for p := 0; p < n; p++ {
				if res[p].gets[gi].Words != wantW {
					badRange = fmt.Sprintf("Get #%d count=%d: party %d got %d words, expected %d", gi, cnt, p, res[p].gets[gi].Words, wantW)
				}
			}
			if badRange != "" {
				break
			}
			for w := 0; w < wantW; w++ {
				var xa, xb, xc uint64
				for p := 0; p < n; p++ {
					xa ^= res[p].gets[gi].A[w]
					xb ^= res[p].gets[gi].B[w]
					xc ^= res[p].gets[gi].C[w]
				}
				if xc != xa&xb && badTriple == "" {
					badTriple = fmt.Sprintf("Get #%d count=%d word %d (stream word %d): xor c = %016x, (xor a)&(xor b) = %016x", gi, cnt, w, totalWords+w, xc, xa&xb)
				}
			}
			totalWords += wantW
		}
		c.Hist(fmt.Sprintf("drain-words:%d", (totalWords/50)*50))
		if badRange != "" {
			rq := rp
			rq.Detail += "; " + badRange
			c.Fail("c10:drain:word-range", "Pool.Get returned an unexpected number of words", rq)
			continue
		}
		if badTriple != "" {
			rq := rp
			rq.Detail += "; " + badTriple
			c.Fail(fmt.Sprintf("c10:drain:invalid-triple:parties=%d", n), "dealt triple violates c = a & b", rq)
		}
		// model case, mode 1
		rec := make([]SX, n)
		wpg := make([]SX, n)
		for p := 0; p < n; p++ {
			gl := make([]SX, len(dcounts))
			ws := make([]int, len(dcounts))
			for gi := range dcounts {
				g := res[p].gets[gi]
				tl := make([]SX, g.Words)
				for w := 0; w < g.Words; w++ {
					tl[w] = L(U64(g.A[w]), U64(g.B[w]), U64(g.C[w]))
				}
				gl[gi] = L(tl...)
				ws[gi] = g.Words
			}
			rec[p] = L(gl...)
			wpg[p] = Ints(ws)
		}
		// re-chunk the streams: mostly the real batch sizes (64 words, then 128),
		// sometimes small ones
		var bsizes []int
		cover := 0
		small := r.Intn(3) == 0
		for cover < totalWords+1 {
			b := 128
			if len(bsizes) == 0 {
				b = 64
			}
			if small {
				b = r.Range(1, 20)
			}
			bsizes = append(bsizes, b)
			cover += b
		}
		outs1 := make([]SX, n)
		for p := range outs1 {
			outs1[p] = Bits(wantBits)
		}
		validFlag := 1
		if badTriple != "" {
			validFlag = 0
		}
		in := L(I(1), dims, gs, Ints(sizes), L(insx...), c10RndSX(r, sizes), Ints(dcounts), L(rec...), Ints(bsizes), c10PoolsSX(r, n, len(bsizes)))
		obs := L(L(wpg...), I(1), I(validFlag), I(totalWords), L(outs1...))
		c.Case(in, obs)
	}
	if err := c10Chains(c, timeout); err != nil {
		return err
	}
	if err := c10Reuse(c, timeout); err != nil {
		return err
	}
	if err := c10CLI(c); err != nil {
		return err
	}
	c10Overlap(c, timeout)
	if err := c10Skel(c, timeout); err != nil {
		return err
	}
	return c10Wide(c, timeout)
}

// c10Chain: a chain of depth AND gates over two 1-bit inputs (2 parties).
// mix: XOR/XNOR/INV gates between the ANDs (they keep the AND depth).
// keepOne: only gates that keep the chain value 1 for all-one inputs
// (XNOR with an input, pairs of INV), for the network run.
func c10Chain(r *RNG, depth int, mix, keepOne bool) *circuit.Circuit {
	gates := make([]circuit.Gate, 0, depth*3/2+4)
	next := 2
	cur := r.Intn(2)
	emit := func(op circuit.Operation, in0, in1 int) {
		gates = append(gates, circuit.Gate{Input0: circuit.Wire(in0), Input1: circuit.Wire(in1), Output: circuit.Wire(next), Op: op})
		cur = next
		next++
	}
	for d := 0; d < depth; d++ {
		if mix && r.Intn(4) == 0 {
			switch k := r.Intn(3); {
			case keepOne && k == 0, !keepOne && k == 0:
				emit(circuit.XNOR, cur, r.Intn(2))
			case keepOne:
				emit(circuit.INV, cur, 0)
				emit(circuit.INV, cur, 0)
			case k == 1:
				emit(circuit.XOR, cur, r.Intn(2))
			default:
				emit(circuit.INV, cur, 0)
			}
		}
		emit(circuit.AND, cur, r.Intn(2))
	}
	c := &circuit.Circuit{NumGates: len(gates), NumWires: next, Gates: gates}
	c.Inputs = c10IO("p", []int{1, 1})
	c.Outputs = c10IO("r", []int{1})
	for _, g := range gates {
		c.Stats[g.Op]++
	}
	return c
}

type c10LevelReplay struct {
	Seed     uint64 `json:"seed"`
	Depth    int    `json:"and_depth"`
	Mix      bool   `json:"mixed_with_xor_inv"`
	Gates    int    `json:"gates"`
	Evidence string `json:"evidence"`
}

// c10CheckLevels evaluates the defining property of AssignLevels(TargetGMW)
// on the implementation: Gate.Level = AND depth of the gate's operands
// (computed here with unbounded ints), hence every gate's level is >= the
// level of the gates producing its operands, and > when the producer is an
// AND; Stats[NumLevels] = the maximal AND depth of a wire.
func c10CheckLevels(circ *circuit.Circuit) string {
	depthOf := make([]int, circ.NumWires) // AND depth of every wire
	prod := make([]int, circ.NumWires)    // producing gate, -1 for inputs
	for i := range prod {
		prod[i] = -1
	}
	max := 0
	for gi, g := range circ.Gates {
		want := depthOf[g.Input0]
		ins := []circuit.Wire{g.Input0}
		if g.Op != circuit.INV {
			ins = append(ins, g.Input1)
			if depthOf[g.Input1] > want {
				want = depthOf[g.Input1]
			}
		}
		for _, w := range ins {
			if pj := prod[w]; pj >= 0 {
				pg := circ.Gates[pj]
				need := int(pg.Level)
				if pg.Op == circuit.AND {
					need++
				}
				if int(g.Level) < need {
					return fmt.Sprintf("gate #%d (%s w%d w%d -> w%d) has level %d but its operand w%d is produced by gate #%d (%s, level %d): the level-wise schedule of Network.run evaluates the consumer in round %d, before the producer's result exists (round %d)",
						gi, g.Op, g.Input0, g.Input1, g.Output, g.Level, w, pj, pg.Op, pg.Level, g.Level, need)
				}
			}
		}
		if int(g.Level) != want {
			return fmt.Sprintf("gate #%d (%s w%d w%d -> w%d): Gate.Level = %d, AND depth of its operands = %d", gi, g.Op, g.Input0, g.Input1, g.Output, g.Level, want)
		}
		out := want
		if g.Op == circuit.AND {
			out++
		}
		depthOf[g.Output] = out
		prod[g.Output] = gi
		if out > max {
			max = out
		}
	}
	if int(circ.Stats[circuit.NumLevels]) != max {
		return fmt.Sprintf("Stats[NumLevels] = %d, maximal AND depth = %d", circ.Stats[circuit.NumLevels], max)
	}
	return ""
}

// c10Chains: AssignLevels on deep AND chains without a network (every
// tier), mid-size chains as correspondence cases for the model's
// assign_levels, and (thorough) one real 2-party run of a 65537-level chain.
func c10Chains(c *Ctx, timeout time.Duration) error {
	r := c.rng.Fork()
	for _, depth := range []int{65535, 65536, 65537, 70000} {
		for _, mix := range []bool{false, true} {
			circ := c10Chain(r, depth, mix, false)
			circ.AssignLevels(utils.TargetGMW)
			c.Eval(fmt.Sprintf("levels|%d|%v|%d", depth, mix, len(circ.Gates)), true)
			c.Hist("kind:deep-and-chain(levels only)")
			if ev := c10CheckLevels(circ); ev != "" {
				key := "c10:levels:and-depth<65536:wrong-level"
				if depth >= 65536 {
					key = "c10:levels:and-depth>=65536:not-topological"
				}
				c.Fail(key, "Circuit.AssignLevels(TargetGMW) assigns a level that does not respect the dependencies",
					c10LevelReplay{Seed: c.Seed, Depth: depth, Mix: mix, Gates: len(circ.Gates), Evidence: ev})
			}
		}
	}
	// correspondence: the model's assign_levels on mid-size chains
	for _, depth := range []int{r.Range(900, 1100), 2000} {
		circ := c10Chain(r, depth, true, false)
		circ.AssignLevels(utils.TargetGMW)
		c.Eval(fmt.Sprintf("levels|%d|mid|%d", depth, len(circ.Gates)), true)
		c.Hist("kind:mid-and-chain(levels only)")
		if ev := c10CheckLevels(circ); ev != "" {
			c.Fail("c10:levels:and-depth<65536:wrong-level", "Circuit.AssignLevels(TargetGMW) assigns a level that does not respect the dependencies",
				c10LevelReplay{Seed: c.Seed, Depth: depth, Mix: true, Gates: len(circ.Gates), Evidence: ev})
		}
		levels := make([]int, len(circ.Gates))
		for gi, g := range circ.Gates {
			levels[gi] = int(g.Level)
		}
		dims, gs := CircuitSX(circ)
		c.Case(L(I(3), dims, gs), L(Ints(levels), I(int(circ.Stats[circuit.NumLevels]))))
	}
	if !c.Thorough() {
		return nil
	}
	// one real network on a chain deeper than 2^16 levels
	depth := 65537
	circ := c10Chain(r, depth, true, true)
	circ.AssignLevels(utils.TargetGMW)
	inputs := []*big.Int{big.NewInt(1), big.NewInt(1)}
	want, err := circ.Compute(inputs)
	if err != nil {
		return fmt.Errorf("chain: Compute: %v", err)
	}
	wantBits := JoinOutputs(circ, want)
	replay := c10Replay{Seed: c.Seed, Case: -2, Parties: 2, Kind: "deep-and-chain", Inputs: []string{"1", "1"}, Want: bitsString(wantBits),
		Detail: fmt.Sprintf("chain of %d AND gates (XNOR / INV INV between), %d gates, NumLevels=%d", depth, len(circ.Gates), circ.Stats[circuit.NumLevels])}
	var res []c10PartyResult
	var stalled bool
	for attempt := 0; attempt < 4; attempt++ {
		var retry bool
		res, stalled, retry = c10RunNetwork(&c10Plan{n: 2, circ: circ, inputs: inputs, delays: [][]int{{0, 0, 0, 0}, {0, 0, 0, 0}}, order: []int{1}, timeout: timeout + 200*time.Second})
		if !retry {
			break
		}
	}
	c.Eval(fmt.Sprintf("chain-run|%d|%d", depth, len(circ.Gates)), true)
	c.Hist("kind:deep-and-chain(network)")
	if stalled {
		c.Fail("c10:levels:and-depth>=65536:stalled", "GMW network stalled", replay)
		return nil
	}
	var gotStr []string
	for p := range res {
		if res[p].err != nil {
			rp := replay
			rp.Detail += fmt.Sprintf("; party %d failed at %s: %v", p, res[p].step, res[p].err)
			c.Fail("c10:levels:and-depth>=65536:error", "GMW party returned an error", rp)
			return nil
		}
		gotStr = append(gotStr, bitsString(JoinOutputs(circ, res[p].out)))
	}
	for _, g := range gotStr {
		if g != bitsString(wantBits) {
			rp := replay
			rp.Got = gotStr
			c.Fail("c10:levels:and-depth>=65536:wrong-output", "a party's GMW output differs from Circuit.Compute", rp)
			break
		}
	}
	return nil
}

// c10WideCircuit: one AND level with more gates than the full pool holds
// triples (64 + 32*128 words = 266240), built directly as circuit.Circuit.
func c10WideCircuit(r *RNG, ands int) *circuit.Circuit {
	sizes := []int{8, 8}
	ni := 16
	gates := make([]circuit.Gate, 0, ands+16)
	next := ni
	// a level of local gates first, so that the AND level mixes shares
	for k := 0; k < 16; k++ {
		op := circuit.XOR
		if k%3 == 0 {
			op = circuit.XNOR
		}
		gates = append(gates, circuit.Gate{Input0: circuit.Wire(k), Input1: circuit.Wire((k + 1 + r.Intn(15)) % 16), Output: circuit.Wire(next), Op: op})
		next++
	}
	for k := 0; k < ands; k++ {
		gates = append(gates, circuit.Gate{Input0: circuit.Wire(r.Intn(32)), Input1: circuit.Wire(r.Intn(32)), Output: circuit.Wire(next), Op: circuit.AND})
		next++
	}
	c := &circuit.Circuit{NumGates: len(gates), NumWires: next, Gates: gates}
	c.Inputs = c10IO("p", sizes)
	c.Outputs = c10IO("r", []int{32})
	for _, g := range gates {
		c.Stats[g.Op]++
	}
	return c
}

// c10Wide: a Get larger than the pool, issued after the pool has filled and
// the generator has parked on the condition variable.
func c10Wide(c *Ctx, timeout time.Duration) error {
	r := c.rng.Fork()
	n := 2
	ands := 266240 + r.Range(1, 6000)
	circ := c10WideCircuit(r, ands)
	circ.AssignLevels(utils.TargetGMW)
	inputs := []*big.Int{new(big.Int).SetUint64(r.U64() & 0xff), new(big.Int).SetUint64(r.U64() & 0xff)}
	inStr := []string{inputs[0].Text(16), inputs[1].Text(16)}
	want, err := circ.Compute(inputs)
	if err != nil {
		return fmt.Errorf("wide: Compute: %v", err)
	}
	wantBits := JoinOutputs(circ, want)
	needWords := (ands + 63) / 64
	replay := c10Replay{Seed: c.Seed, Case: -1, Parties: n, Kind: "wide-level", Inputs: inStr, Want: bitsString(wantBits),
		Detail: fmt.Sprintf("raw circuit: 16 XOR/XNOR gates, then one level of %d AND gates (%d words > 4160 words of the full pool); Run starts after the pool has filled", ands, needWords)}
	var res []c10PartyResult
	var stalled bool
	for attempt := 0; attempt < 4; attempt++ {
		d := [][]int{{0, 0, 0, 0}, {0, r.Intn(20), 0, r.Intn(20)}}
		var retry bool
		res, stalled, retry = c10RunNetwork(&c10Plan{n: n, circ: circ, inputs: inputs, delays: d, order: []int{1}, timeout: timeout + 30*time.Second, waitFill: true})
		if !retry {
			break
		}
		c.Hist("harness:port-retry")
	}
	c.Eval(fmt.Sprintf("wide|%d|%s", ands, strings.Join(inStr, ",")), true)
	c.Hist("kind:wide-level")
	done := 1
	if stalled {
		done = 0
		var steps []string
		for p := range res {
			steps = append(steps, fmt.Sprintf("%d:%s(pool filled to %d triples)", p, res[p].step, res[p].filled))
		}
		rp := replay
		rp.Detail += "; not finished after " + (timeout + 30*time.Second).String() + "; parties at " + strings.Join(steps, " ")
		c.Fail("c10:Pool.Get:wide-level-stalls", "Network.Run hangs in Pool.Get when one AND level needs more triples than the full pool holds", rp)
	} else {
		var gotStr []string
		for p := range res {
			if res[p].err != nil {
				rp := replay
				rp.Detail += fmt.Sprintf("; party %d failed at %s: %v", p, res[p].step, res[p].err)
				c.Fail(fmt.Sprintf("c10:wide:error:%s", res[p].step), "GMW party returned an error", rp)
				return nil
			}
			gotStr = append(gotStr, bitsString(JoinOutputs(circ, res[p].out)))
		}
		for _, g := range gotStr {
			if g != bitsString(wantBits) {
				rp := replay
				rp.Got = gotStr
				c.Fail("c10:wide:wrong-output", "a party's GMW output differs from Circuit.Compute", rp)
				break
			}
		}
		// write segments of a level message larger than p2p.writeBufSize (model: mode 7)
		c10WideSegs(c, circ, res)
	}
	// model case, mode 2: pool words when the generator parked (leader), Get completes
	filledWords := int(res[0].filled / 64)
	c.Case(L(I(2), I(needWords)), L(I(filledWords), I(1), I(done)))
	c.Note("wide level: %d ANDs = %d words; pool filled to %d triples before Run", ands, needWords, res[0].filled)
	return nil
}

// ---------------------------------------------------------------- network reuse

type c10ReuseReplay struct {
	Seed     uint64     `json:"seed"`
	Sequence int        `json:"sequence"`
	Parties  int        `json:"parties"`
	Run      int        `json:"failing_run"`
	Runs     []string   `json:"runs"` // kind, wires, outputs of every run of the sequence
	Inputs   [][]string `json:"inputs"`
	Got      []string   `json:"got,omitempty"`
	Want     string     `json:"want,omitempty"`
	Detail   string     `json:"detail,omitempty"`
}

// c10ReuseCircuit: size 0 = small (a few gates), 1 = medium, 2 = big.
// multiOut splits the output bits into several output arguments.
func c10ReuseCircuit(r *RNG, n, size int, multiOut bool) *c10Circ {
	var cc *c10Circ
	switch size {
	case 0:
		cc = c10Raw(r, n, true)
	case 1:
		cc = c10Levelled(r, n, []int{r.Range(1, 70), r.Range(1, 70)}, false)
	default:
		if r.Bool() {
			cc = c10Raw(r, n, false)
		} else {
			cc = c10Levelled(r, n, c10RandomLevelSizes(r), false)
		}
	}
	no := cc.circ.Outputs.Size()
	if multiOut && no >= 2 {
		k := r.Range(2, minInt(4, no))
		cc.circ.Outputs = c10IO("r", c10Partition(r, no, k))
		cc.kind += "+multi-out"
	}
	return cc
}

// c10Reuse: sequences of 3..5 Network.Run calls on ONE connected network.
func c10Reuse(c *Ctx, timeout time.Duration) error {
	patterns := [][]int{{2, 0, 2}, {0, 2, 0}, {1, 1, 1}, {2, 1, 0, 0}, {0, 1, 2, 0, 2}, {2, 0, 0, 2}}
	nseq := c.N(4, 16)
	for si := 0; si < nseq; si++ {
		r := c.rng.Fork()
		n := 2 + si%2
		pat := patterns[(si+int(c.Seed))%len(patterns)]
		var runs []c10SeqRun
		var kinds []string
		var wants [][]bool
		var inStrs [][]string
		var jobs []SX
		wordsNeeded := 0
		var same *c10Circ
		for k, size := range pat {
			// the small circuits mostly have ONE output argument; "equal": the same circuit again
			multi := r.Intn(3) == 0
			if size == 0 {
				multi = r.Intn(5) == 0
			}
			var cc *c10Circ
			if size == 1 && same != nil {
				cc = same
			} else {
				cc = c10ReuseCircuit(r, n, size, multi)
				cc.circ.AssignLevels(utils.TargetGMW)
				if size == 1 {
					same = cc
				}
			}
			circ := cc.circ
			sizes := make([]int, n)
			inputs := make([]*big.Int, n)
			insx := make([]SX, n)
			strs := make([]string, n)
			for p := 0; p < n; p++ {
				sizes[p] = int(circ.Inputs[p].Type.Bits)
				v := new(big.Int)
				for b := 0; b < sizes[p]; b++ {
					if r.Intn(4) != 0 { // mostly ones: stale wires are visible
						v.SetBit(v, b, 1)
					}
				}
				if r.Bool() {
					v = negRep(v, sizes[p])
				}
				inputs[p] = v
				insx[p] = Bits(c10BitsOf(v, sizes[p]))
				strs[p] = v.Text(16)
			}
			want, err := circ.Compute(inputs)
			if err != nil {
				return fmt.Errorf("reuse: Compute: %v", err)
			}
			wants = append(wants, JoinOutputs(circ, want))
			runs = append(runs, c10SeqRun{circ: circ, inputs: inputs})
			kinds = append(kinds, fmt.Sprintf("run%d: %s wires=%d gates=%d outputs=%v", k, cc.kind, circ.NumWires, len(circ.Gates), circ.Outputs))
			inStrs = append(inStrs, strs)
			dims, gs := CircuitSX(circ)
			jobs = append(jobs, L(dims, gs, Ints(sizes), L(insx...), c10RndSX(r, sizes)))
			andsPer := map[int]int{}
			for _, g := range circ.Gates {
				if g.Op == circuit.AND {
					andsPer[int(g.Level)]++
				}
			}
			for _, cnt := range andsPer {
				wordsNeeded += (cnt + 63) / 64
			}
		}
		var res []c10PartyResult
		var stalled bool
		seqDoors := r.U64() & r.U64()
		for attempt := 0; attempt < 4; attempt++ {
			d := make([][]int, n)
			for p := range d {
				d[p] = []int{0, r.Intn(10), r.Intn(20), r.Intn(10)}
			}
			order := []int{1}
			if n == 3 {
				order = []int{2, 1}
			}
			var retry bool
			res, stalled, retry = c10RunNetwork(&c10Plan{n: n, circ: runs[0].circ, inputs: runs[0].inputs, delays: d, order: order, timeout: timeout, seq: runs, doors: seqDoors})
			if !retry {
				break
			}
			c.Hist("harness:port-retry")
		}
		c.Eval(fmt.Sprintf("reuse|%d|%d|%s|%v", n, si, strings.Join(kinds, ";"), inStrs), true)
		c.Hist(fmt.Sprintf("kind:network-reuse(%d runs)", len(pat)))
		replay := c10ReuseReplay{Seed: c.Seed, Sequence: si, Parties: n, Run: -1, Runs: kinds, Inputs: inStrs}
		if stalled {
			var steps []string
			for p := range res {
				steps = append(steps, fmt.Sprintf("%d:%s", p, res[p].step))
			}
			replay.Detail = "did not finish within " + timeout.String() + "; parties at " + strings.Join(steps, " ")
			c.Fail("c10:network-reuse:stalled", "GMW network stalled in a sequence of runs", replay)
			continue
		}
		ok := true
		for p := range res {
			if res[p].err != nil {
				ok = false
				rp := replay
				rp.Detail = fmt.Sprintf("party %d failed at %s: %v", p, res[p].step, res[p].err)
				c.Fail(fmt.Sprintf("c10:network-reuse:%s:error", res[p].step), "GMW party returned an error", rp)
			}
		}
		if !ok {
			continue
		}
		outsx := make([]SX, len(runs))
		plainsx := make([]SX, len(runs))
		for k := range runs {
			per := make([]SX, n)
			var gotStr []string
			bad := false
			for p := 0; p < n; p++ {
				// compare the returned VALUES (a result with bits above its
				// argument's width is wrong even if the low bits agree)
				vals := res[p].outs[k]
				for ai, a := range runs[k].circ.Outputs {
					if ai >= len(vals) || vals[ai].BitLen() > int(a.Type.Bits) {
						bad = true
					}
				}
				if len(vals) != len(runs[k].circ.Outputs) {
					bad = true
				}
				var vs []string
				for _, v := range vals {
					vs = append(vs, v.Text(16))
				}
				got := make([]bool, 0, len(wants[k]))
				if len(vals) == len(runs[k].circ.Outputs) {
					got = JoinOutputs(runs[k].circ, vals)
				}
				if bitsString(got) != bitsString(wants[k]) {
					bad = true
				}
				gotStr = append(gotStr, strings.Join(vs, ","))
				per[p] = Bits(got)
			}
			outsx[k] = L(per...)
			plainsx[k] = Bits(wants[k])
			if bad {
				ok = false
				rp := replay
				rp.Run = k
				rp.Got = gotStr
				wv := []string{}
				wvals, _ := runs[k].circ.Compute(runs[k].inputs)
				for _, v := range wvals {
					wv = append(wv, v.Text(16))
				}
				rp.Want = strings.Join(wv, ",")
				rp.Detail = "result values (hex, one per output argument) of every party vs Circuit.Compute"
				var gb []string
				for p := 0; p < n; p++ {
					if len(res[p].outs[k]) == len(runs[k].circ.Outputs) {
						gb = append(gb, bitsString(JoinOutputs(runs[k].circ, res[p].outs[k])))
					}
				}
				key := c10NegKey(runs[k].circ, runs[k].inputs, gb, fmt.Sprintf("c10:network-reuse:run%d:wrong-output", k))
				c.Fail(key, "a party's result of a Run on a reused network differs from Circuit.Compute", rp)
				break
			}
		}
		if !ok {
			continue
		}
		// model case, mode 4
		var batches []SX
		have := 0
		for have < wordsNeeded+r.Intn(3) || len(batches) == 0 {
			w := r.Range(1, 9)
			a := make([]SX, n)
			b := make([]SX, n)
			sbs := make([]SX, n)
			dls := make([]SX, n)
			for p := 0; p < n; p++ {
				a[p] = c10Words(c10RandWords(r, w))
				b[p] = c10Words(c10RandWords(r, w))
				row := make([]SX, n)
				for q := 0; q < n; q++ {
					row[q] = c10Words(c10RandWords(r, w))
				}
				sbs[p] = L(row...)
				dls[p] = Bits(c10RandBits(r, n))
			}
			batches = append(batches, L(I(w), L(a...), L(b...), L(sbs...), L(dls...)))
			have += w
		}
		c.Case(L(I(4), I(n), L(jobs...), L(batches...), c10PoolsSX(r, n, len(batches))), L(L(outsx...), L(plainsx...)))
	}
	return nil
}

// ---------------------------------------------------------------- overlapping networks

// c10Overlap: two networks of this process run at the same time (package
// state must not be shared), one of them on a circuit levelled with
// AssignLevels(TargetYao) — every gate its own topological level, a legal if
// slower schedule for Network.run.  Oracle only.
func c10Overlap(c *Ctx, timeout time.Duration) {
	r := c.rng.Fork()
	type job struct {
		n      int
		cc     *c10Circ
		inputs []*big.Int
		want   string
		res    []c10PartyResult
		stall  bool
		retry  bool
		doors  uint64
	}
	mk := func(n int, yao bool) *job {
		cc := c10Levelled(r, n, []int{r.Range(1, 40), r.Range(1, 70), r.Range(1, 40)}, false)
		if yao {
			cc.circ.AssignLevels(utils.TargetYao)
			cc.kind += "+levelled-for-TargetYao"
		} else {
			cc.circ.AssignLevels(utils.TargetGMW)
		}
		j := &job{n: n, cc: cc, doors: r.U64() & r.U64() &^ (c10DoorOneProc | c10DoorGC)}
		for p := 0; p < n; p++ {
			v := new(big.Int)
			for b := 0; b < int(cc.circ.Inputs[p].Type.Bits); b++ {
				if r.Intn(4) != 0 {
					v.SetBit(v, b, 1)
				}
			}
			j.inputs = append(j.inputs, v)
		}
		w, _ := cc.circ.Compute(j.inputs)
		j.want = bitsString(JoinOutputs(cc.circ, w))
		return j
	}
	jobs := []*job{mk(2, true), mk(3, false)}
	for attempt := 0; attempt < 3; attempt++ {
		var wg sync.WaitGroup
		for _, j := range jobs {
			wg.Add(1)
			go func(j *job) {
				defer wg.Done()
				d := make([][]int, j.n)
				for p := range d {
					d[p] = []int{0, 0, 0, 0}
				}
				order := []int{1}
				if j.n == 3 {
					order = []int{2, 1}
				}
				j.res, j.stall, j.retry = c10RunNetwork(&c10Plan{n: j.n, circ: j.cc.circ, inputs: j.inputs, delays: d, order: order, timeout: timeout, doors: j.doors})
			}(j)
		}
		wg.Wait()
		if !jobs[0].retry && !jobs[1].retry {
			break
		}
	}
	for _, j := range jobs {
		var inStr []string
		for _, v := range j.inputs {
			inStr = append(inStr, v.Text(16))
		}
		c.Eval(fmt.Sprintf("overlap|%d|%s|%v", j.n, circuitText(j.cc.circ), inStr), true)
		c.Hist("kind:overlapping-networks:" + j.cc.kind)
		rp := c10Replay{Seed: c.Seed, Case: -3, Parties: j.n, Kind: "overlapping-networks:" + j.cc.kind, Inputs: inStr, Want: j.want}
		if len(j.cc.circ.Gates) <= 400 {
			rp.Circuit = circuitText(j.cc.circ)
		}
		if j.stall {
			c.Fail("c10:overlapping-networks:stalled", "GMW network stalled while another network of the process was running", rp)
			continue
		}
		var got []string
		bad := false
		for p := range j.res {
			if j.res[p].err != nil {
				rq := rp
				rq.Detail = fmt.Sprintf("party %d failed at %s: %v", p, j.res[p].step, j.res[p].err)
				c.Fail(fmt.Sprintf("c10:overlapping-networks:error:%s", j.res[p].step), "GMW party returned an error", rq)
				bad = true
				break
			}
			g := bitsString(JoinOutputs(j.cc.circ, j.res[p].out))
			got = append(got, g)
			if g != j.want {
				bad = true
			}
		}
		if bad && len(got) == j.n {
			rp.Got = got
			key := "c10:overlapping-networks:wrong-output"
			if strings.Contains(j.cc.kind, "TargetYao") {
				key = "c10:levels:levelled-for-TargetYao:wrong-output"
			}
			c.Fail(key, "a party's GMW output differs from Circuit.Compute", rp)
		}
	}
}
