package main

// C05 door sweep: ways into the streaming path that the program families do
// not use (notes/C05-findings.md, table "Doors").  Every session is judged by
// the C05 oracle (both parties agree, streamed = whole circuit, whole circuit
// = Go reference where the family has one).  Sessions that differ from the
// ordinary ones only outside the Coq model (transport, runtime settings,
// object reuse, concurrency, the exported pieces of Compiler.Stream, options
// that do not change the stream) are oracle only; the input-construct and
// imported-package programs are ordinary correspondence cases.

import (
	"fmt"
	"math/big"
	"net"
	"path/filepath"
	"strings"
	"sync"
	"time"

	"github.com/markkurossi/mpc/circuit"
	"github.com/markkurossi/mpc/compiler"
	"github.com/markkurossi/mpc/compiler/utils"
	"github.com/markkurossi/mpc/ot"
)

// c05TCPPair: a connected loopback TCP pair (garbler end, evaluator end).
func c05TCPPair() (net.Conn, net.Conn, error) {
	ln, err := net.Listen("tcp", "127.0.0.1:0")
	if err != nil {
		return nil, nil, err
	}
	defer ln.Close()
	type acc struct {
		c   net.Conn
		err error
	}
	ch := make(chan acc, 1)
	go func() {
		c, err := ln.Accept()
		ch <- acc{c, err}
	}()
	g, err := net.DialTimeout("tcp", ln.Addr().String(), 5*time.Second)
	if err != nil {
		return nil, nil, err
	}
	a := <-ch
	if a.err != nil {
		g.Close()
		return nil, nil, a.err
	}
	return g, a.c, nil
}

// c05DoorBase: a small program (loop over an array, one multiplication) with
// its reference results.
func c05DoorBase(r *RNG) c05Prog {
	n := 3 + r.Intn(7)
	a, b := uint32(r.Intn(1<<16)), uint32(r.Intn(1<<16))
	switch r.Intn(6) {
	case 0:
		a = 0xffff
	case 1:
		b = 0
	}
	cnt := uint32(0)
	for i := 0; i < n; i++ {
		if i%4 == 1 {
			cnt++
		}
	}
	src := fmt.Sprintf("package main\n\nfunc main(a, b uint16) (uint16, uint32) {\n\tvar arr [4]uint16\n\tfor i := 0; i < %d; i++ {\n\t\tarr[i %% 4] = arr[i %% 4] + a\n\t}\n\tm := uint32(a) * uint32(b)\n\treturn arr[1] ^ b, m\n}\n", n)
	return c05Prog{src: src, g: []string{fmt.Sprint(a)}, e: []string{fmt.Sprint(b)},
		want: []*big.Int{big.NewInt(int64(((a * cnt) & 0xffff) ^ b)), big.NewInt(int64(a * b))}, nstmts: 4}
}

func c05DoorSource() string {
	return filepath.Join(c05RepoRoot(), "pkg", "math", "verifc05.mpcl")
}

// c05ImportProgs: programs that import MPCL library packages (Compiler.parsePkg,
// package-level constants, functions of other packages inlined into main).
func c05ImportProgs(r *RNG) []c05Prog {
	hex := func(n int) string { return c05RandHex(r, 8*n) }
	var ps []c05Prog
	add := func(label, src string, g, e []string) {
		ps = append(ps, c05Prog{src: src, g: g, e: e, opt: c05StreamOpt{source: c05DoorSource(), label: "import:" + label},
			feat: map[string]int{"door:import:" + label: 1}, nstmts: 4})
	}
	add("encoding/binary", "package main\n\nimport (\n\t\"encoding/binary\"\n)\n\nfunc main(a [8]byte, b uint32) (uint32, uint64, []byte, uint32) {\n\tx := binary.GetUint32(a[2:6])\n\ty := binary.GetUint64(a)\n\td := binary.PutUint32(a, 4, b ^ x)\n\treturn x, y, d, binary.GetUint32LSB(d[3:7])\n}\n",
		[]string{hex(8)}, []string{fmt.Sprint(r.Intn(1 << 31))})
	add("bytes", "package main\n\nimport (\n\t\"bytes\"\n)\n\nfunc main(a, b [6]byte) (int, bool, bool, int) {\n\treturn bytes.Compare(a, b), bytes.Equal(a[1:3], b[1:3]), bytes.HasPrefix(a, b[:2]), bytes.Compare(a[:3], b)\n}\n",
		[]string{hex(6)}, []string{hex(6)})
	add("math/bits+math", "package main\n\nimport (\n\t\"math\"\n\t\"math/bits\"\n)\n\nfunc main(a, b uint32) (uint32, uint32, uint64) {\n\tx := bits.RotateLeft32(a, 7) ^ bits.RotateLeft32(b, -3)\n\tif x > math.MaxUint16 {\n\t\tx = x - math.MaxUint16\n\t}\n\treturn x, bits.RotateLeft32(x, 31), math.AddUint64(uint64(a), uint64(b))\n}\n",
		[]string{fmt.Sprint(r.Intn(1 << 31))}, []string{fmt.Sprint(r.Intn(1 << 31))})
	// encoding/hex has a package-level variable (Package.Init, DefineConstants)
	add("encoding/hex", "package main\n\nimport (\n\t\"encoding/hex\"\n)\n\nfunc main(a [2]byte, b uint8) (byte, byte, byte) {\n\ts := hex.EncodeToString(a)\n\tt := []byte(s)\n\treturn t[1] ^ b, hex.Digits[b & 15], t[2]\n}\n",
		[]string{hex(2)}, []string{fmt.Sprint(r.Intn(256))})
	return ps
}

// c05InputProgs: argument kinds and input spellings the generator does not
// produce (bool arguments, unsized slices of both parties, binary / octal /
// repeated-hex literals, all-ones and zero values, an input wider than one
// 65536-label page of the evaluator's wire store).
func c05InputProgs(r *RNG) []c05Prog {
	var ps []c05Prog
	add := func(label, src string, g, e []string, want []*big.Int, oracleOnly bool) {
		ps = append(ps, c05Prog{src: src, g: g, e: e, want: want, opt: c05StreamOpt{label: "input:" + label, oracleOnly: oracleOnly},
			feat: map[string]int{"door:input:" + label: 1}, nstmts: 3})
	}
	bi := func(v int64) *big.Int { return big.NewInt(v) }
	b2i := func(b bool) int64 {
		if b {
			return 1
		}
		return 0
	}
	// bool arguments in their spellings
	ga, eb := r.Bool(), r.Bool()
	sp := func(b bool) string {
		if b {
			return []string{"1", "t", "true"}[r.Intn(3)]
		}
		return []string{"0", "f", "false"}[r.Intn(3)]
	}
	add("bool-arguments", "package main\n\nfunc main(a, b bool) (bool, bool, uint8) {\n\tvar x uint8\n\tif a && !b {\n\t\tx = 200\n\t} else {\n\t\tx = 3\n\t}\n\treturn a != b, a || b, x\n}\n",
		[]string{sp(ga)}, []string{sp(eb)},
		[]*big.Int{bi(b2i(ga != eb)), bi(b2i(ga || eb)), bi(map[bool]int64{true: 200, false: 3}[ga && !eb])}, false)
	// unsized slices of different lengths on both sides
	la, lb := 1+r.Intn(5), 1+r.Intn(5)
	add("unsized-slices", "package main\n\nfunc main(a, b []byte) (uint16, int, int) {\n\tvar sum uint16\n\tfor i := 0; i < len(a); i++ {\n\t\tsum = sum + uint16(a[i])\n\t}\n\tfor i := 0; i < len(b); i++ {\n\t\tsum = sum ^ uint16(b[i]) << 4\n\t}\n\treturn sum, len(a), len(b)\n}\n",
		[]string{c05RandHex(r, 8*la)}, []string{c05RandHex(r, 8*lb)}, nil, false)
	// literal spellings: binary, octal, all ones, zero
	x, y := r.Intn(1<<12), r.Intn(1<<12)
	add("literal-spellings", "package main\n\nfunc main(a, b uint16) (uint16, uint16) {\n\treturn a + b, a - b\n}\n",
		[]string{fmt.Sprintf("0b%b", x)}, []string{fmt.Sprintf("0o%o", y)},
		[]*big.Int{bi(int64((x + y) & 0xffff)), bi(int64((x - y) & 0xffff))}, false)
	add("extreme-values", "package main\n\nfunc main(a int32, b uint32) (int32, uint32, bool) {\n\treturn a - 1, b + 1, a < int32(b)\n}\n",
		[]string{"-2147483648"}, []string{"4294967295"},
		[]*big.Int{bi(0x7fffffff), bi(0), bi(1)}, false)
	add("zero-values", "package main\n\nfunc main(a int32, b uint32) (int32, uint32, bool) {\n\treturn a - 1, b - 1, a < int32(b)\n}\n",
		[]string{"0"}, []string{"0"},
		[]*big.Int{bi(0xffffffff), bi(0xffffffff), bi(0)}, false)
	// garbler input of 66000 bits: the evaluator's wire store is paged by
	// 65536 labels, the peer's input labels cross the first page boundary
	n := 8250
	hexs := c05RandHex(r, 8*n)
	raw := strings.TrimPrefix(hexs, "0x")
	first, _ := new(big.Int).SetString(raw[:2], 16)
	last, _ := new(big.Int).SetString(raw[len(raw)-2:], 16)
	bv := int64(r.Intn(256))
	add("input-across-wire-page", fmt.Sprintf("package main\n\nfunc main(a [%d]byte, b uint8) (uint8, uint8) {\n\treturn a[0] ^ b, a[%d] + b\n}\n", n, n-1),
		[]string{hexs}, []string{fmt.Sprint(bv)},
		[]*big.Int{bi(first.Int64() ^ bv), bi((last.Int64() + bv) & 0xff)}, true)
	// ... and the evaluator's own 16 input bits lie on both sides of it
	n = 8191
	hexs = c05RandHex(r, 8*n)
	raw = strings.TrimPrefix(hexs, "0x")
	last, _ = new(big.Int).SetString(raw[len(raw)-2:], 16)
	bw := int64(r.Intn(1 << 16))
	add("evaluator-input-across-wire-page", fmt.Sprintf("package main\n\nfunc main(a [%d]byte, b uint16) (uint16, uint16) {\n\treturn uint16(a[%d]) + b, b ^ 0x5aa5\n}\n", n, n-1),
		[]string{hexs}, []string{fmt.Sprint(bw)},
		[]*big.Int{bi((last.Int64() + bw) & 0xffff), bi(bw ^ 0x5aa5)}, true)
	return ps
}

// c05Doors runs the door sweep.
func c05Doors(c *Ctx, idx *int) error {
	r := c.rng.Fork()
	run := func(p c05Prog) error {
		err := c05Program(c, *idx, "door", p, 0)
		*idx++
		return err
	}
	withOpt := func(p c05Prog, label string, o c05StreamOpt) c05Prog {
		o.label, o.oracleOnly = label, true
		p.opt = o
		p.feat = map[string]int{"door:" + label: 1}
		return p
	}
	// (1) options and exported pieces
	for _, d := range []struct {
		label string
		opt   c05StreamOpt
	}{
		{"opt-prune-gates", c05StreamOpt{prune: true}},
		{"target-gmw", c05StreamOpt{gmw: true}},
		{"Program.Stream", c05StreamOpt{direct: true}},
		{"gc-pressure-one-proc", c05StreamOpt{pressure: true}},
		{"tcp-loopback", c05StreamOpt{tcp: true}},
	} {
		if err := run(withOpt(c05DoorBase(r.Fork()), d.label, d.opt)); err != nil {
			return err
		}
	}
	// (2) long-lived objects: one Compiler, one Params, one OT object per
	// party serve three sessions with different programs, with a whole-circuit
	// compilation on the same Compiler in between (apps/garbled -e -stream
	// keeps its OT object over the sessions it serves)
	params := utils.NewParams()
	comp := compiler.New(params)
	gOT, eOT := ot.NewCO(r.Fork()), ot.NewCO(r.Fork())
	imports := c05ImportProgs(r.Fork())
	// the second and the third session import the same packages
	again := c05ImportProgs(r.Fork())
	k := len(imports) - 1 - r.Intn(2) // a package with constants or with variables
	sess := []c05Prog{c05DoorBase(r.Fork()), imports[k], again[k]}
	for i, p := range sess {
		o := p.opt
		o.comp, o.params, o.gOT, o.eOT = comp, params, gOT, eOT
		if err := run(withOpt(p, fmt.Sprintf("shared-compiler-params-ot:session-%d", i+1), o)); err != nil {
			return err
		}
		if i == 0 {
			if _, _, err := comp.Compile(sess[0].src, [][]int{{16}, {16}}); err != nil {
				return fmt.Errorf("door sweep: Compile on the shared compiler: %v", err)
			}
		}
		if i == 1 {
			s0, _ := circuit.InputSizes(p.g)
			s1, _ := circuit.InputSizes(p.e)
			if _, _, err := comp.CompileSSA(p.opt.source, strings.NewReader(p.src), [][]int{s0, s1}); err != nil {
				return fmt.Errorf("door sweep: CompileSSA on the shared compiler: %v", err)
			}
		}
	}
	// (3) two sessions at the same time in one process
	pa, pb := c05DoorBase(r.Fork()), imports[r.Intn(len(imports))]
	ra, rb := r.Fork(), r.Fork()
	var wg sync.WaitGroup
	var sa, sb *c05Stream
	wg.Add(2)
	go func() { defer wg.Done(); sa = c05RunStream(pa.src, pa.g, pa.e, pa.opt, ra, 0, 120*time.Second) }()
	go func() { defer wg.Done(); sb = c05RunStream(pb.src, pb.g, pb.e, pb.opt, rb, 0, 120*time.Second) }()
	wg.Wait()
	oa, ob := pa.opt, pb.opt
	oa.pre, ob.pre = sa, sb
	if err := run(withOpt(pa, "concurrent-sessions:a", oa)); err != nil {
		return err
	}
	if err := run(withOpt(pb, "concurrent-sessions:b", ob)); err != nil {
		return err
	}
	// (4) imported packages, (5) input constructs: ordinary cases
	for _, p := range imports {
		if err := run(p); err != nil {
			return err
		}
	}
	for _, p := range c05InputProgs(r.Fork()) {
		if err := run(p); err != nil {
			return err
		}
	}
	return nil
}
