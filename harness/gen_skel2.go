package main

// gen_skel2.go — statement walker, inlining and Coq emission of the skeleton
// translator (see gen_skel.go for the description).

import (
	"fmt"
	"go/ast"
	"go/token"
	"path/filepath"
	"sort"
	"strings"
)

type skWalk struct {
	*skScope
	okCalls     map[*ast.CallExpr]bool
	nonErrRets  int
	branchStmts int
	inlineDepth int
}

func (w *skWalk) unk(pos token.Pos, format string, a ...interface{}) *skNode {
	return w.ex.unknown(w.p, pos, format, a...)
}

// mentions: does the node mention any connection-class value?
func (w *skWalk) mentions(n ast.Node) bool {
	found := false
	if n == nil {
		return false
	}
	ast.Inspect(n, func(x ast.Node) bool {
		if found {
			return false
		}
		if e, ok := x.(ast.Expr); ok {
			switch e.(type) {
			case *ast.Ident, *ast.SelectorExpr:
				if w.class(e) != "" {
					found = true
					return false
				}
			}
		}
		return true
	})
	return found
}

// calls: the communication performed by evaluating the expressions of a node, in evaluation order
func (w *skWalk) calls(n ast.Node) []*skNode {
	var out []*skNode
	if n == nil {
		return nil
	}
	var visit func(x ast.Node)
	visit = func(x ast.Node) {
		switch v := x.(type) {
		case nil:
			return
		case *ast.FuncLit:
			if w.mentions(v) {
				out = append(out, w.unk(v.Pos(), "function literal captures a connection"))
			}
			return
		case *ast.CallExpr:
			for _, a := range v.Args {
				visit(a)
			}
			if sel, ok := v.Fun.(*ast.SelectorExpr); ok {
				visit(sel.X)
			} else {
				visit(v.Fun)
			}
			out = append(out, w.call(v)...)
			return
		}
		// generic descent over children, in source order
		var kids []ast.Node
		first := true
		ast.Inspect(x, func(c ast.Node) bool {
			if first {
				first = false
				return true
			}
			if c != nil {
				kids = append(kids, c)
			}
			return false
		})
		for _, k := range kids {
			visit(k)
		}
	}
	visit(n)
	return out
}

func (w *skWalk) argTouches(c *ast.CallExpr) bool {
	for _, a := range c.Args {
		if w.class(a) != "" {
			return true
		}
	}
	return false
}

func (w *skWalk) call(c *ast.CallExpr) []*skNode {
	if sel, ok := c.Fun.(*ast.SelectorExpr); ok {
		cls := w.class(sel.X)
		m := sel.Sel.Name
		switch {
		case cls == "conn":
			if !w.p.ioOps[m] && !w.ex.ot.ioOps[m] {
				return []*skNode{w.unk(c.Pos(), "unknown connection method %s", m)}
			}
			if w.argTouches(c) {
				return []*skNode{w.unk(c.Pos(), "connection passed to %s", m)}
			}
			w.okCalls[c] = true
			switch {
			case m == "Flush":
				return []*skNode{{Op: "flush"}}
			case strings.HasPrefix(m, "Send"):
				return []*skNode{{Op: "send", Kind: strings.TrimPrefix(m, "Send")}}
			case strings.HasPrefix(m, "Receive"):
				return []*skNode{{Op: "recv", Kind: strings.TrimPrefix(m, "Receive")}}
			}
			return []*skNode{w.unk(c.Pos(), "unclassified ot.IO method %s", m)}
		case cls == "ot":
			if !skOTOps[m] {
				return []*skNode{w.unk(c.Pos(), "unknown OT method %s", m)}
			}
			w.okCalls[c] = true
			n := &skNode{Op: "call", CallN: m, Base: w.p.name == "ot", Label: "-"}
			switch m {
			case "InitSender", "InitReceiver":
				if len(c.Args) != 1 || w.class(c.Args[0]) != "conn" {
					return []*skNode{w.unk(c.Pos(), "%s not called with the connection", m)}
				}
			default:
				if len(c.Args) < 1 || w.argTouches(c) {
					return []*skNode{w.unk(c.Pos(), "unexpected arguments of OT.%s", m)}
				}
				cnt := w.lenOf(c.Args[0])
				l, ok := skCountLabel(w.entry, cnt)
				if !ok {
					return []*skNode{w.unk(c.Pos(), "OT.%s count not classified: %s", m, cnt)}
				}
				n.Label = l
			}
			return []*skNode{n}
		case strings.HasPrefix(cls, "struct:"):
			fd, ok := w.p.funcs[cls[7:]+"."+m]
			if !ok {
				return []*skNode{w.unk(c.Pos(), "method %s.%s not found", cls[7:], m)}
			}
			w.okCalls[c] = true
			return w.inline(fd, sel.X, c)
		}
		if w.argTouches(c) {
			return []*skNode{w.unk(c.Pos(), "connection passed to %s", skExprText(c.Fun))}
		}
		return nil
	}
	if id, ok := c.Fun.(*ast.Ident); ok {
		if !w.argTouches(c) {
			return nil
		}
		if fd, ok := w.p.funcs[id.Name]; ok && fd.Recv == nil && !w.isLocal(id) {
			w.okCalls[c] = true
			return w.inline(fd, nil, c)
		}
		return []*skNode{w.unk(c.Pos(), "connection passed to %s", id.Name)}
	}
	if w.argTouches(c) || w.mentions(c.Fun) {
		return []*skNode{w.unk(c.Pos(), "connection used in an unclassified call")}
	}
	return nil
}

func (w *skWalk) inline(fd *ast.FuncDecl, recv ast.Expr, c *ast.CallExpr) []*skNode {
	if w.inlineDepth > 8 {
		return []*skNode{w.unk(c.Pos(), "inlining too deep (recursion?) at %s", fd.Name.Name)}
	}
	sub := &skScope{p: w.p, entry: w.entry, fn: fd, binds: map[string]*skBinding{}, lclass: map[*ast.Object]string{},
		facts: map[*ast.Object]string{}, ex: w.ex}
	if recv != nil && fd.Recv != nil && len(fd.Recv.List) == 1 && len(fd.Recv.List[0].Names) == 1 {
		sub.binds[fd.Recv.List[0].Names[0].Name] = &skBinding{class: w.class(recv), ren: w.ren(recv)}
	}
	i := 0
	for _, fl := range fd.Type.Params.List {
		for _, n := range fl.Names {
			if i < len(c.Args) {
				sub.binds[n.Name] = &skBinding{class: w.class(c.Args[i]), ren: w.ren(c.Args[i])}
			}
			i++
		}
	}
	return skExtractFunc(sub, w.inlineDepth+1)
}

// skExtractFunc walks the body of the scope's function.
func skExtractFunc(s *skScope, depth int) []*skNode {
	s.collectDefs()
	// parameters and the receiver are bound, not local
	strip := func(fl *ast.FieldList) {
		if fl == nil {
			return
		}
		for _, f := range fl.List {
			for _, n := range f.Names {
				if n.Obj != nil {
					delete(s.defs, n.Obj)
				}
			}
		}
	}
	strip(s.fn.Recv)
	strip(s.fn.Type.Params)
	w := &skWalk{skScope: s, okCalls: map[*ast.CallExpr]bool{}, inlineDepth: depth}
	nodes, _ := w.block(s.fn.Body.List)
	nodes = append(nodes, w.checkMentions()...)
	return nodes
}

func isNilIdent(e ast.Expr) bool {
	id, ok := e.(*ast.Ident)
	return ok && id.Name == "nil"
}

// errCond: `x != nil` for a non-connection identifier x (the error variable)
func (w *skWalk) errCond(e ast.Expr) bool {
	be, ok := e.(*ast.BinaryExpr)
	if !ok || be.Op != token.NEQ || !isNilIdent(be.Y) {
		return false
	}
	id, ok := be.X.(*ast.Ident)
	return ok && w.class(id) == "" && (id.Name == "err" || strings.HasPrefix(id.Name, "err"))
}

// errorExit: the statement list ends in `return ..., <error value>` or panic(...)
func (w *skWalk) errorExit(list []ast.Stmt) bool {
	if len(list) == 0 {
		return false
	}
	switch v := list[len(list)-1].(type) {
	case *ast.ReturnStmt:
		if len(v.Results) == 0 {
			return false
		}
		switch r := v.Results[len(v.Results)-1].(type) {
		case *ast.CallExpr:
			t := skExprText(r.Fun)
			return t == "fmt.Errorf" || t == "errors.New"
		case *ast.Ident:
			return r.Name == "err" || strings.HasPrefix(r.Name, "Err") || strings.HasPrefix(r.Name, "err")
		}
	case *ast.ExprStmt:
		if c, ok := v.X.(*ast.CallExpr); ok {
			if id, ok := c.Fun.(*ast.Ident); ok && id.Name == "panic" {
				return true
			}
		}
	}
	return false
}

// harvest equalities from a dropped guard `a != X || b != Y`
func (w *skWalk) harvest(e ast.Expr) {
	switch v := e.(type) {
	case *ast.ParenExpr:
		w.harvest(v.X)
	case *ast.BinaryExpr:
		switch v.Op {
		case token.LOR:
			w.harvest(v.X)
			w.harvest(v.Y)
		case token.NEQ:
			if id, ok := v.X.(*ast.Ident); ok && id.Obj != nil && w.isLocal(id) && !isNilIdent(v.Y) {
				if _, has := w.facts[id.Obj]; !has {
					r := w.ren(v.Y)
					if !strings.Contains(r, "?") {
						w.facts[id.Obj] = r
					}
				}
			}
		}
	}
}

func (w *skWalk) block(list []ast.Stmt) (nodes []*skNode, term bool) {
	for i, st := range list {
		switch v := st.(type) {
		case *ast.IfStmt:
			n, t, cut := w.ifStmt(v, list[i+1:])
			nodes = append(nodes, n...)
			if t || cut {
				return nodes, t
			}
			continue
		}
		n, t := w.stmt(st)
		nodes = append(nodes, n...)
		if t {
			return nodes, true
		}
	}
	return nodes, false
}

// ifStmt returns the nodes, whether control never continues after them, and
// whether the rest of the enclosing list has been consumed (cut) into an arm.
func (w *skWalk) ifStmt(v *ast.IfStmt, rest []ast.Stmt) (nodes []*skNode, term bool, cut bool) {
	if v.Init != nil {
		n, _ := w.stmt(v.Init)
		nodes = append(nodes, n...)
	}
	nodes = append(nodes, w.calls(v.Cond)...)
	// error guards
	if w.errCond(v.Cond) || (v.Else == nil && w.errorExit(v.Body.List)) {
		saveR, saveB := w.nonErrRets, w.branchStmts
		bn, _ := w.block(v.Body.List)
		w.nonErrRets, w.branchStmts = saveR, saveB
		if len(bn) > 0 {
			nodes = append(nodes, w.unk(v.Pos(), "communication inside an error branch"))
		}
		if !w.errCond(v.Cond) {
			w.harvest(v.Cond)
		}
		if v.Else != nil {
			en, et := w.block([]ast.Stmt{v.Else})
			nodes = append(nodes, en...)
			return nodes, et, false
		}
		return nodes, false, false
	}
	tn, tt := w.block(v.Body.List)
	var en []*skNode
	et := false
	if v.Else != nil {
		en, et = w.block([]ast.Stmt{v.Else})
	}
	if !tt && !et {
		if skEqual(tn, en) {
			return append(nodes, tn...), false, false
		}
	} else {
		// an arm returns: the rest of the list belongs to the other arm(s)
		rn, rt := w.block(rest)
		if !tt {
			tn = append(tn, rn...)
		}
		if !et {
			en = append(en, rn...)
		}
		cut = true
		term = (tt || rt) && (et || rt)
		if skEqual(tn, en) {
			return append(nodes, tn...), term, true
		}
	}
	c := w.ren(v.Cond)
	cl, ok := skCondLabels[c]
	if !ok {
		nodes = append(nodes, w.unk(v.Pos(), "branch condition not classified: %s", c))
		return nodes, term, cut
	}
	if cl.neg {
		tn, en = en, tn
	}
	nodes = append(nodes, &skNode{Op: "branch", Label: cl.label, Body: tn, Else: en})
	return nodes, term, cut
}

func (w *skWalk) stmt(st ast.Stmt) (nodes []*skNode, term bool) {
	switch v := st.(type) {
	case nil, *ast.EmptyStmt:
		return nil, false
	case *ast.ExprStmt:
		return w.calls(v.X), false
	case *ast.IncDecStmt:
		return w.calls(v.X), false
	case *ast.AssignStmt:
		for _, r := range v.Rhs {
			nodes = append(nodes, w.calls(r)...)
		}
		for _, l := range v.Lhs {
			if _, ok := l.(*ast.Ident); !ok {
				nodes = append(nodes, w.calls(l)...)
			}
		}
		// aliases of connection-class values
		if len(v.Lhs) == len(v.Rhs) {
			for i, l := range v.Lhs {
				if id, ok := l.(*ast.Ident); ok && id.Obj != nil {
					if c := w.class(v.Rhs[i]); c != "" {
						w.lclass[id.Obj] = c
					}
				}
			}
		} else if len(v.Rhs) == 1 {
			if c, ok := v.Rhs[0].(*ast.CallExpr); ok {
				if f, ok := c.Fun.(*ast.Ident); ok {
					if fd, ok := w.p.funcs[f.Name]; ok && fd.Recv == nil && fd.Type.Results != nil {
						k := 0
						for _, fl := range fd.Type.Results.List {
							cnt := len(fl.Names)
							if cnt == 0 {
								cnt = 1
							}
							for j := 0; j < cnt; j++ {
								if k < len(v.Lhs) {
									if id, ok := v.Lhs[k].(*ast.Ident); ok && id.Obj != nil {
										if cl := w.p.classOfType(skTypeText(fl.Type)); cl != "" {
											w.lclass[id.Obj] = cl
										}
									}
								}
								k++
							}
						}
					}
				}
			}
		}
		return nodes, false
	case *ast.DeclStmt:
		if gd, ok := v.Decl.(*ast.GenDecl); ok {
			for _, sp := range gd.Specs {
				if vs, ok := sp.(*ast.ValueSpec); ok {
					for i, val := range vs.Values {
						nodes = append(nodes, w.calls(val)...)
						if i < len(vs.Names) && vs.Names[i].Obj != nil {
							if c := w.class(val); c != "" {
								w.lclass[vs.Names[i].Obj] = c
							}
						}
					}
					if vs.Type != nil && len(vs.Values) == 0 {
						if c := w.p.classOfType(skTypeText(vs.Type)); c != "" {
							nodes = append(nodes, w.unk(v.Pos(), "uninitialised connection-class variable"))
						}
					}
				}
			}
		}
		return nodes, false
	case *ast.ReturnStmt:
		for _, r := range v.Results {
			nodes = append(nodes, w.calls(r)...)
		}
		w.nonErrRets++
		return nodes, true
	case *ast.BlockStmt:
		return w.block(v.List)
	case *ast.IfStmt:
		n, t, _ := w.ifStmt(v, nil)
		return n, t
	case *ast.ForStmt:
		if v.Init != nil {
			n, _ := w.stmt(v.Init)
			nodes = append(nodes, n...)
		}
		hdr := append(w.calls(v.Cond), w.calls(v.Post)...)
		if len(hdr) > 0 {
			nodes = append(nodes, w.unk(v.Pos(), "communication in a loop header"))
		}
		return append(nodes, w.loop(v, v.Body)...), false
	case *ast.RangeStmt:
		if len(w.calls(v.X)) > 0 || w.mentions(v.X) {
			nodes = append(nodes, w.unk(v.Pos(), "communication in a range expression"))
		}
		return append(nodes, w.loop(v, v.Body)...), false
	case *ast.BranchStmt:
		w.branchStmts++
		return nil, false
	case *ast.LabeledStmt, *ast.SwitchStmt, *ast.TypeSwitchStmt, *ast.SelectStmt, *ast.GoStmt, *ast.DeferStmt, *ast.SendStmt:
		if w.mentions(v) {
			return []*skNode{w.unk(v.Pos(), "connection used inside %T", v)}, false
		}
		return nil, false
	}
	if w.mentions(st) {
		return []*skNode{w.unk(st.Pos(), "connection used inside %T", st)}, false
	}
	return nil, false
}

func (w *skWalk) loop(l ast.Stmt, body *ast.BlockStmt) []*skNode {
	saveR, saveB := w.nonErrRets, w.branchStmts
	bn, _ := w.block(body.List)
	rets, brs := w.nonErrRets-saveR, w.branchStmts-saveB
	if len(bn) == 0 {
		w.nonErrRets, w.branchStmts = saveR, saveB
		return nil
	}
	var out []*skNode
	if rets > 0 {
		out = append(out, w.unk(l.Pos(), "return inside a communicating loop"))
	}
	if brs > 0 {
		out = append(out, w.unk(l.Pos(), "break/continue/goto inside a communicating loop"))
	}
	w.nonErrRets, w.branchStmts = saveR, saveB
	b := w.boundOf(l)
	label, factor, ok := skBoundLabel(w.entry, b)
	if !ok {
		out = append(out, w.unk(l.Pos(), "loop bound not classified: %s", b))
		label, factor = "?", 1
	}
	var rep []*skNode
	for i := 0; i < factor; i++ {
		rep = append(rep, bn...)
	}
	return append(out, &skNode{Op: "loop", Label: label, Body: rep})
}

// checkMentions: every use of a connection-class value must be in a position
// the walker understands.
func (w *skWalk) checkMentions() []*skNode {
	var out []*skNode
	var stack []ast.Node
	ast.Inspect(w.fn.Body, func(n ast.Node) bool {
		if n == nil {
			stack = stack[:len(stack)-1]
			return true
		}
		stack = append(stack, n)
		e, isExpr := n.(ast.Expr)
		if !isExpr {
			return true
		}
		switch e.(type) {
		case *ast.Ident, *ast.SelectorExpr:
		default:
			return true
		}
		if w.class(e) == "" {
			return true
		}
		defer func() { stack = stack[:len(stack)-1] }() // Inspect does not call f(nil) after a false return
		// maximal connection-class expression: look at the context
		i := len(stack) - 2
		for i >= 0 {
			switch p := stack[i].(type) {
			case *ast.ParenExpr, *ast.StarExpr:
				i--
				continue
			case *ast.UnaryExpr:
				if p.Op == token.AND {
					i--
					continue
				}
			}
			break
		}
		ok := false
		if i >= 0 {
			switch p := stack[i].(type) {
			case *ast.SelectorExpr:
				// p.X == e : field read or method call; calls are policed by call()
				ok = true
				if i >= 1 {
					if c, isCall := stack[i-1].(*ast.CallExpr); isCall && c.Fun == ast.Expr(p) && !w.okCalls[c] {
						ok = true // already reported by call() as unknown (or a non-communicating method)
					}
				}
			case *ast.CallExpr:
				ok = w.okCalls[p] // as an argument of a classified call; otherwise call() reported it
				if !ok {
					ok = true
					if !w.reported(p) {
						out = append(out, w.unk(p.Pos(), "connection passed to an unclassified call"))
					}
				}
			case *ast.AssignStmt, *ast.KeyValueExpr, *ast.ReturnStmt, *ast.ValueSpec, *ast.CompositeLit:
				ok = true
			case *ast.BinaryExpr:
				ok = (p.Op == token.EQL || p.Op == token.NEQ) && (isNilIdent(p.X) || isNilIdent(p.Y))
			}
		}
		for _, a := range stack {
			if _, isLit := a.(*ast.FuncLit); isLit {
				ok = false
			}
			switch a.(type) {
			case *ast.GoStmt, *ast.DeferStmt:
				ok = false
			}
		}
		if !ok {
			out = append(out, w.unk(e.Pos(), "connection-class value %s used in an unclassified position", skExprText(e)))
		}
		return false
	})
	return out
}

// reported: call() has produced an unknown node for this call already
func (w *skWalk) reported(c *ast.CallExpr) bool {
	ps := w.p.fset.Position(c.Pos())
	rel, _ := filepath.Rel(w.p.repo, ps.Filename)
	pre := fmt.Sprintf("%s:%d:", rel, ps.Line)
	for _, e := range w.ex.errs {
		if strings.HasPrefix(e, pre) {
			return true
		}
	}
	return false
}

// ---------------------------------------------------------------- entries

type skResult struct {
	Garbler, Evaluator []*skNode
	Ops                map[string]map[string][]*skNode // OT type -> op -> skeleton
	Errs               []string
	WriteBufSize       int64
	ChunkRows          int64
	BatchSize          int64
}

var skOTImpls = []string{"CO", "RSA", "COT"}
var skOTOpNames = []string{"InitSender", "InitReceiver", "Send", "Receive"}

func skEntryScope(p *skPkg, ex *skExtractor, fd *ast.FuncDecl, entry string) *skScope {
	s := &skScope{p: p, entry: entry, fn: fd, binds: map[string]*skBinding{}, lclass: map[*ast.Object]string{},
		facts: map[*ast.Object]string{}, ex: ex}
	if fd.Recv != nil && len(fd.Recv.List) == 1 && len(fd.Recv.List[0].Names) == 1 {
		t := skTypeText(fd.Recv.List[0].Type)
		s.binds[fd.Recv.List[0].Names[0].Name] = &skBinding{class: p.classOfType(t), ren: "$r"}
	}
	seen := map[string]int{}
	for _, fl := range fd.Type.Params.List {
		t := skTypeText(fl.Type)
		for _, n := range fl.Names {
			base := strings.TrimPrefix(t, "*")
			if k := strings.LastIndex(base, "."); k >= 0 && !strings.HasPrefix(base, "[]") {
				base = base[k+1:]
			}
			name := "$" + base
			seen[name]++
			if seen[name] > 1 {
				name = fmt.Sprintf("%s#%d", name, seen[name])
			}
			s.binds[n.Name] = &skBinding{class: p.classOfType(t), ren: name}
		}
	}
	return s
}

func skExtractAll(repo string) (*skResult, error) {
	circ, err := skLoadPkg(repo, "circuit")
	if err != nil {
		return nil, err
	}
	otp, err := skLoadPkg(repo, "ot")
	if err != nil {
		return nil, err
	}
	p2p, err := skLoadPkg(repo, "p2p")
	if err != nil {
		return nil, err
	}
	ex := &skExtractor{ot: otp}
	for _, c := range []string{"chunkRows", "K", "otBatchSize"} {
		if v, ok := otp.consts.vals[c]; ok {
			skConsts[c] = v.String()
		} else {
			skConsts[c] = "?" + c
			ex.errs = append(ex.errs, "constant ot."+c+" not found")
		}
	}
	res := &skResult{Ops: map[string]map[string][]*skNode{}}
	missing := func(what string) []*skNode {
		msg := what + ": function not found in the source"
		ex.errs = append(ex.errs, msg)
		return []*skNode{{Op: "unknown", Msg: msg}}
	}
	if len(otp.ioOps) == 0 {
		ex.errs = append(ex.errs, "ot/io.go: interface IO not found")
	}
	for _, e := range []struct {
		name string
		dst  *[]*skNode
	}{{"Garbler", &res.Garbler}, {"Evaluator", &res.Evaluator}} {
		fd, ok := circ.funcs[e.name]
		if !ok {
			*e.dst = missing("circuit." + e.name)
			continue
		}
		*e.dst = skExtractFunc(skEntryScope(circ, ex, fd, e.name), 0)
	}
	for _, t := range skOTImpls {
		res.Ops[t] = map[string][]*skNode{}
		for _, op := range skOTOpNames {
			fd, ok := otp.funcs[t+"."+op]
			if !ok {
				res.Ops[t][op] = missing("ot." + t + "." + op)
				continue
			}
			res.Ops[t][op] = skExtractFunc(skEntryScope(otp, ex, fd, t+"."+op), 0)
		}
	}
	get := func(p *skPkg, name string) int64 {
		if v, ok := p.consts.vals[name]; ok {
			return v.Int64()
		}
		ex.errs = append(ex.errs, "constant "+p.name+"."+name+" not found")
		return 0
	}
	res.WriteBufSize = get(p2p, "writeBufSize")
	res.ChunkRows = get(otp, "chunkRows")
	res.BatchSize = get(otp, "otBatchSize")
	// the label tables hard-wire 1024 / 8 / 128 in the canonical forms; a changed constant makes the
	// canonical bound unknown (loud), nothing to do here
	seen := map[string]bool{}
	for _, e := range ex.errs {
		if !seen[e] {
			seen[e] = true
			res.Errs = append(res.Errs, e)
		}
	}
	sort.Strings(res.Errs)
	return res, nil
}

// ---------------------------------------------------------------- Coq emission

func coqStr(s string) string {
	return "\"" + strings.ReplaceAll(s, "\"", "'") + "\""
}

// label template -> Coq string expression over the variable n
func coqLabel(l string, param bool) string {
	if !strings.Contains(l, "$n") {
		return coqStr(l)
	}
	if !param {
		return coqStr(strings.ReplaceAll(l, "$n", "?n"))
	}
	if l == "$n" {
		return "n"
	}
	parts := strings.Split(l, "$n")
	var items []string
	for i, p := range parts {
		if p != "" {
			items = append(items, coqStr(p))
		}
		if i < len(parts)-1 {
			items = append(items, "n")
		}
	}
	return "(nm_cat [" + strings.Join(items, "; ") + "])"
}

func skEmit(sb *strings.Builder, nodes []*skNode, indent string, param bool) {
	sb.WriteString("mk [")
	for i, n := range nodes {
		if i > 0 {
			sb.WriteString(";")
		}
		sb.WriteString("\n" + indent + "  ")
		switch n.Op {
		case "send":
			sb.WriteString("PSend " + coqStr(n.Kind))
		case "recv":
			sb.WriteString("PRecv " + coqStr(n.Kind))
		case "flush":
			sb.WriteString("PFlush")
		case "loop":
			sb.WriteString("PLoop " + coqLabel(n.Label, param) + " (")
			skEmit(sb, n.Body, indent+"  ", param)
			sb.WriteString(")")
		case "branch":
			sb.WriteString("PBranch " + coqLabel(n.Label, param) + " (")
			skEmit(sb, n.Body, indent+"  ", param)
			sb.WriteString(") (")
			skEmit(sb, n.Else, indent+"  ", param)
			sb.WriteString(")")
		case "call":
			b := "false"
			if n.Base {
				b = "true"
			}
			sb.WriteString("PCall " + b + " O" + n.CallN + " " + coqLabel(n.Label, param))
		default:
			sb.WriteString("PUnknown " + coqStr(n.Msg))
		}
	}
	sb.WriteString("]")
}

func skRender(res *skResult) string {
	var sb strings.Builder
	sb.WriteString("(* Skel.v — GENERATED by `harness gen` (harness/gen_skel.go) from circuit/garbler.go,\n" +
		"   circuit/evaluator.go and ot/{io,co,co_helpers,rsa,cot,iknp}.go on every check run.  Do not edit.\n" +
		"   Communication skeletons (Proto/Live.v) of the two-party session and of the OT implementations. *)\n" +
		"From Coq Require Import List.\nFrom Mpc Require Import Proto.Live.\nImport ListNotations.\nOpen Scope nm_scope.\n\n")
	sb.WriteString("Definition skel_gen_errors : list name := [")
	for i, e := range res.Errs {
		if i > 0 {
			sb.WriteString(";")
		}
		sb.WriteString("\n  " + coqStr(e))
	}
	sb.WriteString("].\n\n")
	sb.WriteString("Definition skel_garbler : prog :=\n  ")
	skEmit(&sb, res.Garbler, "  ", false)
	sb.WriteString(".\n\nDefinition skel_evaluator : prog :=\n  ")
	skEmit(&sb, res.Evaluator, "  ", false)
	sb.WriteString(".\n\n")
	for _, t := range skOTImpls {
		for _, op := range skOTOpNames {
			sb.WriteString(fmt.Sprintf("Definition skel_%s_%s (n : name) : prog :=\n  ", t, op))
			skEmit(&sb, res.Ops[t][op], "  ", true)
			sb.WriteString(".\n\n")
		}
		sb.WriteString(fmt.Sprintf("Definition skel_%s : otimpl :=\n  mkOT (skel_%s_InitSender \"-\") (skel_%s_InitReceiver \"-\") skel_%s_Send skel_%s_Receive.\n\n", t, t, t, t, t))
	}
	return sb.String()
}

func genSkel(repo, out string) error {
	res, err := skExtractAll(repo)
	if err != nil {
		// even a parse failure must surface in C02 only: emit a skeleton that cannot be well flushed
		res = &skResult{Ops: map[string]map[string][]*skNode{}, Errs: []string{"parse: " + err.Error()}}
		u := []*skNode{{Op: "unknown", Msg: "parse: " + err.Error()}}
		res.Garbler, res.Evaluator = u, u
		for _, t := range skOTImpls {
			res.Ops[t] = map[string][]*skNode{}
			for _, op := range skOTOpNames {
				res.Ops[t][op] = u
			}
		}
	}
	return writeIfChanged(filepath.Join(out, "Skel.v"), skRender(res))
}
