package main

// c01doors.go: the "less-travelled doors" into Circuit.Garble / Circuit.Eval / Circuit.Compute /
// LabelForBit / BitFromLabel (inventory: notes/C01-findings.md, table "Doors").  Every phase
// here uses the oracle of C01 (decoded garbled evaluation = truth-table evaluation = Compute)
// and, where the sequential model reaches, records correspondence cases.

import (
	"bytes"
	"crypto/sha256"
	"fmt"
	"math/big"
	"os"
	"path/filepath"
	"runtime"
	"runtime/debug"
	"strings"
	"sync"
	"time"

	"github.com/markkurossi/mpc/circuit"
	"github.com/markkurossi/mpc/compiler/utils"
	"github.com/markkurossi/mpc/ot"
	"github.com/markkurossi/mpc/sha2pc"
)

type c01DoorReplay struct {
	Seed    uint64 `json:"seed"`
	Door    string `json:"door"`
	Case    int    `json:"case"`
	Step    string `json:"step"`
	Circuit string `json:"circuit"`
	Key     string `json:"key"`
	X       string `json:"x"`
	Got     string `json:"got"`
	Want    string `json:"want"`
}

func c01DoorFail(c *Ctx, door string, idx int, step, bad string, circ *circuit.Circuit, key []byte, x, got, want []bool) {
	text := ""
	if circ != nil {
		if len(circ.Gates) <= 300 {
			text = circuitText(circ)
		} else {
			text = fmt.Sprintf("generated circuit (%d gates, %d wires); regenerate from seed/door/case", len(circ.Gates), circ.NumWires)
		}
	}
	c.Fail("c01:door:"+door+":"+strings.SplitN(bad, ":", 2)[0], "["+door+", "+step+"] "+bad,
		c01DoorReplay{Seed: c.Seed, Door: door, Case: idx, Step: step, Circuit: text,
			Key: fmt.Sprintf("%x", key), X: bitsString(x), Got: bitsString(got), Want: bitsString(want)})
}

// c01Garble / c01Eval: the calls themselves; a panic inside is reported as an error of the call
// (so that it becomes an oracle failure with its input instead of a crashed run).
func c01Garble(circ *circuit.Circuit, rd *blockLog, key []byte) (g *circuit.Garbled, err error) {
	defer func() {
		if p := recover(); p != nil {
			g, err = nil, fmt.Errorf("panic: %v", p)
		}
	}()
	return circ.Garble(rd, key)
}

func c01Eval(circ *circuit.Circuit, key []byte, wires []ot.Label, gt [][]ot.Label) (err error) {
	defer func() {
		if p := recover(); p != nil {
			err = fmt.Errorf("panic: %v", p)
		}
	}()
	return circ.Eval(key, wires, gt)
}

// c01Snap: defensive copies of what a Garbled exposes.
type c01Snap struct {
	r  ot.Label
	gw []ot.Wire
	gt [][]ot.Label
}

func c01SnapOf(g *circuit.Garbled) *c01Snap {
	s := &c01Snap{r: g.R, gw: append([]ot.Wire(nil), g.Wires...), gt: make([][]ot.Label, len(g.Gates))}
	for k, row := range g.Gates {
		s.gt[k] = append([]ot.Label(nil), row...)
	}
	return s
}

func c01TablesEqual(a, b [][]ot.Label) bool {
	if len(a) != len(b) {
		return false
	}
	for i := range a {
		if len(a[i]) != len(b[i]) {
			return false
		}
		for j := range a[i] {
			if a[i][j] != b[i][j] {
				return false
			}
		}
	}
	return true
}

func c01WiresEqual(a, b []ot.Wire) bool {
	if len(a) != len(b) {
		return false
	}
	for i := range a {
		if a[i] != b[i] {
			return false
		}
	}
	return true
}

// same: the live Garbled still shows exactly what it showed when it was returned.
func (s *c01Snap) same(g *circuit.Garbled) string {
	switch {
	case g.R != s.r:
		return "live Garbled changed after it was returned: R differs"
	case !c01WiresEqual(g.Wires, s.gw):
		return "live Garbled changed after it was returned: Wires differ"
	case !c01TablesEqual(g.Gates, s.gt):
		return "live Garbled changed after it was returned: Gates differ"
	}
	return ""
}

// c01EvalOn evaluates input x on (key, gw, gt) in the CALLER's wire buffer (only the input
// positions are written, whatever an earlier evaluation left in the buffer stays) and checks
// the C01 oracle.  It also checks that Eval leaves its key and table arguments untouched.
func c01EvalOn(circ *circuit.Circuit, key []byte, gw []ot.Wire, gt [][]ot.Label, buf []ot.Label, x []bool) (bad string, got []bool, decoded []SX, outl []ot.Label) {
	ni := ioBits(circ.Inputs)
	no := ioBits(circ.Outputs)
	for b := 0; b < ni; b++ {
		buf[b] = circuit.LabelForBit(gw[b], x[b])
	}
	keyBefore := append([]byte(nil), key...)
	var tabBefore [][]ot.Label
	for _, row := range gt {
		tabBefore = append(tabBefore, append([]ot.Label(nil), row...))
	}
	got = make([]bool, no)
	decoded = make([]SX, no)
	if err := c01Eval(circ, key, buf, gt); err != nil {
		return "Eval error: " + err.Error(), got, decoded, nil
	}
	if !bytes.Equal(key, keyBefore) {
		bad = "Eval modified its key argument"
	}
	if !c01TablesEqual(gt, tabBefore) {
		bad = "Eval modified its garbled-table argument"
	}
	for o := 0; o < no; o++ {
		w := circ.NumWires - no + o
		bit, err := circuit.BitFromLabel(gw[w], buf[w])
		if err != nil {
			decoded[o] = I(-1)
			bad = fmt.Sprintf("output label is neither L0 nor L1: output %d", o)
			continue
		}
		got[o] = bit
		decoded[o] = Bool(bit)
	}
	outl = append([]ot.Label(nil), buf[circ.NumWires-no:circ.NumWires]...)
	if bad == "" && bitsString(got) != bitsString(TruthEval(circ, x)) {
		bad = "garbled evaluation differs from truth-table evaluation"
	}
	return bad, got, decoded, outl
}

// c01Inputs: all assignments when there are at most `exh` input bits, else k random ones.
func c01Inputs(r *RNG, ni, exh, k int) [][]bool {
	var xs [][]bool
	if ni <= exh {
		for v := 0; v < 1<<uint(ni); v++ {
			x := make([]bool, ni)
			for b := 0; b < ni; b++ {
				x[b] = v>>uint(b)&1 == 1
			}
			xs = append(xs, x)
		}
		return xs
	}
	for j := 0; j < k; j++ {
		x := make([]bool, ni)
		for b := range x {
			x[b] = r.Bool()
		}
		if j == 1 {
			for b := range x {
				x[b] = true
			}
		}
		xs = append(xs, x)
	}
	return xs
}

// c01HandBuilt: the same circuit as somebody would write it down by hand or get it from a
// generator of their own: no statistics, levels assigned, the unused second operand of INV gates
// holding some (in-range) wire id.
func c01HandBuilt(r *RNG, src *circuit.Circuit, variant int) *circuit.Circuit {
	cp := &circuit.Circuit{NumGates: src.NumGates, NumWires: src.NumWires, Inputs: src.Inputs, Outputs: src.Outputs,
		Gates: append([]circuit.Gate(nil), src.Gates...), Stats: src.Stats}
	if variant&1 != 0 {
		cp.Stats = circuit.Stats{}
	}
	if variant&2 != 0 {
		for k := range cp.Gates {
			if cp.Gates[k].Op == circuit.INV {
				if r.Bool() {
					cp.Gates[k].Input1 = cp.Gates[k].Input0
				} else {
					cp.Gates[k].Input1 = circuit.Wire(r.Intn(cp.NumWires))
				}
			}
		}
	}
	if variant&4 != 0 {
		cp.AssignLevels(utils.TargetYao) // what the compiler does to every circuit it returns
	}
	if ni := ioBits(src.Inputs); variant&8 != 0 && ni >= 3 {
		// three parties: the same wires declared as three arguments
		a := 1 + r.Intn(ni-2)
		b := 1 + r.Intn(ni-a-1)
		cp.Inputs = circuit.IO{{Name: "a", Type: uintInfo(a)}, {Name: "b", Type: uintInfo(b)}, {Name: "c", Type: uintInfo(ni - a - b)}}
	}
	return cp
}

// c01FlatWidths: declared widths of the flattened arguments (what Compute takes one value for).
func c01FlatWidths(c *circuit.Circuit) []int {
	var ws []int
	for _, io := range c.Inputs {
		if len(io.Compound) > 0 {
			for _, m := range io.Compound {
				ws = append(ws, int(m.Type.Bits))
			}
		} else {
			ws = append(ws, int(io.Type.Bits))
		}
	}
	return ws
}

// c01NonFree counts the gates that use a garbled row (from the gates, not from Stats).
func c01NonFree(c *circuit.Circuit) int {
	n := 0
	for _, g := range c.Gates {
		if g.Op == circuit.AND || g.Op == circuit.OR || g.Op == circuit.INV {
			n++
		}
	}
	return n
}

func c01Doors(c *Ctx) error {
	// the small phases run under constant GC pressure (GOGC=1): the garbling scratch lives in a
	// sync.Pool, which the collector empties
	old := debug.SetGCPercent(1)
	defer debug.SetGCPercent(old)
	steps := []struct {
		name string
		f    func(*Ctx) error
	}{
		{"live", c01DoorLive}, {"retry", c01DoorRetry}, {"formats", c01DoorFormats},
		{"identity", c01DoorIdentity}, {"concurrent-garble", c01DoorConcurrentGarble}, {"large", c01DoorLarge},
		{"sha2pc", c01DoorSha2pc}, {"default-config", c01DoorDefaultConfig},
	}
	for _, s := range steps {
		if s.name == "large" {
			debug.SetGCPercent(old)
		}
		t0 := time.Now()
		if err := s.f(c); err != nil {
			return fmt.Errorf("door %s: %v", s.name, err)
		}
		c.Note("c01 door %s: %.2fs", s.name, time.Since(t0).Seconds())
	}
	return nil
}

// c01DoorLive: call patterns on LIVE Garbled objects.  The main loop of runC01 copies Wires and
// Gates the moment Garble returns and gives every evaluation a fresh wire buffer; a caller does
// neither (circuit.Garbler and sha2pc hand garbled.Gates / garbled.Wires on as they are and never
// Release).  Here: garble circuit A, scribble over the key buffer that was passed in, garble A
// AGAIN without releasing the first, garble another circuit B, force a GC, and only then read the
// first Garbled (R, Wires, Gates straight from the object) and evaluate it, every input in ONE
// reused (and sometimes oversized) wire buffer.  Then the second and third.  Then Release all,
// GC, and one more garbling of A.  Lambda / SetLambda (identity write) are checked on the way.
func c01DoorLive(c *Ctx) error {
	n := c.N(30, 600)
	keyLens := []int{16, 24, 32}
	for i := 0; i < n; i++ {
		r := c.rng.Fork()
		mk := func() *circuit.Circuit {
			cc := GenCircuit(r, GenOpts{MinIn: 1, MaxIn: 7, MinGates: 1, MaxGates: 40, MaxOut: 6, Overwrite: true})
			if i%2 == 1 {
				cc = c01HandBuilt(r, cc, 1+(i/2)%15)
				c.Hist(fmt.Sprintf("door:hand-built-circuit-variant:%d", 1+(i/2)%15))
			}
			return cc
		}
		ca, cb := mk(), mk()
		type live struct {
			circ *circuit.Circuit
			key  []byte
			rd   *blockLog
			g    *circuit.Garbled
			snap *c01Snap
			name string
		}
		garble := func(name string, circ *circuit.Circuit) (*live, error) {
			l := &live{circ: circ, name: name, rd: &blockLog{r: r.Fork()}}
			l.key = r.Bytes(keyLens[(i+len(name))%3])
			// the key is a prefix of a longer buffer (key := buf[:n]), as after a read into a fixed array
			passed := append(make([]byte, 0, 48), l.key...)
			copy(passed[len(passed):48], r.Bytes(48-len(passed)))
			g, err := c01Garble(circ, l.rd, passed)
			if err != nil {
				c01DoorFail(c, "live-garbled", i, name, "Garble error: "+err.Error(), circ, l.key, nil, nil, nil)
				return nil, err
			}
			// the caller's key buffer is his again once Garble has returned
			for k := range passed[:cap(passed)] {
				passed[:cap(passed)][k] ^= 0xa5
			}
			l.g, l.snap = g, c01SnapOf(g)
			return l, nil
		}
		var ls []*live
		for _, s := range []struct {
			name string
			circ *circuit.Circuit
		}{{"first-of-A", ca}, {"second-of-A-no-release", ca}, {"B", cb}} {
			l, err := garble(s.name, s.circ)
			if err != nil {
				break
			}
			ls = append(ls, l)
		}
		if len(ls) != 3 {
			continue
		}
		if i%2 == 0 {
			runtime.GC()
		}
		check := func(l *live, all bool) {
			circ := l.circ
			ni := ioBits(circ.Inputs)
			if bad := l.snap.same(l.g); bad != "" {
				c01DoorFail(c, "live-garbled", i, l.name, bad, circ, l.key, nil, nil, nil)
			}
			for w := 0; w < circ.NumWires; w++ {
				want := uint(0)
				if l.g.Wires[w].L0.S() {
					want = 1
				}
				lam := l.g.Lambda(circuit.Wire(w))
				l.g.SetLambda(circuit.Wire(w), lam)
				if lam != want || l.g.Wires[w] != l.snap.gw[w] {
					c01DoorFail(c, "live-garbled", i, l.name, "Lambda is not the permute bit of L0 / SetLambda(w, Lambda(w)) changes the wire", circ, l.key, nil, nil, nil)
					break
				}
			}
			xs := c01Inputs(r, ni, 3, 4)
			if !all {
				xs = xs[len(xs)-1:]
			}
			buf := make([]ot.Label, circ.NumWires+(i%3)*5) // ONE buffer for all inputs, sometimes longer than needed
			dims, gs := CircuitSX(circ)
			for xi, x := range xs {
				bad, got, decoded, outl := c01EvalOn(circ, l.key, l.g.Wires, l.g.Gates, buf, x)
				want := TruthEval(circ, x)
				// Compute: arguments as negative big.Ints with the same bits, left untouched, and
				// asked twice with the first answer scribbled over in between
				ins := SplitInputs(circ, x)
				if (i+xi)%2 == 1 {
					widths := c01FlatWidths(circ)
					for k := range ins {
						ins[k] = negRep(ins[k], widths[k])
					}
					c.Hist("door:Compute-arguments-negative")
				}
				before := bigsString(ins)
				comp, cerr := circ.Compute(ins)
				var compBits []bool
				if cerr != nil {
					bad = "Compute error: " + cerr.Error()
				} else {
					compBits = JoinOutputs(circ, comp)
					for _, v := range comp {
						v.SetInt64(-1)
					}
					comp2, cerr2 := circ.Compute(ins)
					switch {
					case cerr2 != nil:
						bad = "Compute error: second call: " + cerr2.Error()
					case bitsString(JoinOutputs(circ, comp2)) != bitsString(want):
						bad = "Circuit.Compute differs from truth-table evaluation: second call with the same arguments"
					case bigsString(ins) != before:
						bad = "Circuit.Compute modified its arguments"
					case bitsString(compBits) != bitsString(want):
						bad = "Circuit.Compute differs from truth-table evaluation"
					}
				}
				c.Eval(fmt.Sprintf("door-live|%s|%x|%s|%s", circuitText(circ), l.key, bitsString(x), l.name),
					c01NonFree(circ) > 0)
				if bad != "" {
					c01DoorFail(c, "live-garbled", i, l.name, bad, circ, l.key, x, got, want)
					continue
				}
				if xi == 0 {
					// correspondence: everything is read from the live object NOW, after the later garblings
					in := L(Bytes(l.key), dims, gs, Labels(l.rd.blocks), Bits(x), L())
					obs := L(Label(l.g.R), wiresSX(l.g.Wires), tablesSX(l.g.Gates), Labels(outl), L(decoded...), Bits(compBits))
					c.Case(in, obs)
				}
			}
		}
		check(ls[0], true)
		check(ls[1], false)
		check(ls[2], false)
		c.Hist("door:live-garbled-objects-read-after-later-garblings")
		// release in an order of our own, twice for one, then garble A again (after a GC in some rounds)
		ls[1].g.Release()
		ls[0].g.Release()
		ls[0].g.Release()
		ls[2].g.Release()
		if i%3 == 1 {
			runtime.GC()
			c.Hist("door:GC-between-Release-and-Garble")
		}
		if l, err := garble("A-after-release", ca); err == nil {
			check(l, false)
			l.g.Release()
		}
	}
	return nil
}

// c01DoorRetry: abort-then-retry.  A garbling that fails half-way (the entropy source fails at
// the k-th read; a key of an unsupported length) puts its half-written scratch back; the next
// garbling of the same circuit must be complete and correct.  Same for Eval after a rejected key.
func c01DoorRetry(c *Ctx) error {
	n := c.N(16, 300)
	keyLens := []int{16, 24, 32}
	for i := 0; i < n; i++ {
		r := c.rng.Fork()
		circ := GenCircuit(r, GenOpts{MinIn: 2, MaxIn: 8, MinGates: 5, MaxGates: 40, MaxOut: 6, Overwrite: true})
		ni := ioBits(circ.Inputs)
		key := r.Bytes(keyLens[i%3])
		if i%2 == 0 {
			// a used scratch in the pool first
			if g, err := c01Garble(circ, &blockLog{r: r.Fork()}, key); err == nil {
				g.Release()
			}
		}
		// (1) entropy fails at read k: 1 = R, 2.. = input labels
		k := 1 + r.Intn(ni+1)
		frd := &blockLog{r: r.Fork(), failAt: k}
		fg, ferr := c01Garble(circ, frd, key)
		if ferr == nil && frd.failed {
			// the error was swallowed: whatever was returned is used like any other garbling
			// below it would be wrong; not the business of this property to demand the error
			fg.Release()
		}
		c.Hist("door:Garble-aborted-by-entropy-error")
		// (2) unsupported key lengths (explicit error by design)
		for _, kl := range []int{0, 15, 33} {
			if g, err := c01Garble(circ, &blockLog{r: r.Fork()}, r.Bytes(kl)); err == nil {
				g.Release()
			}
		}
		c.Hist("door:Garble-aborted-by-key-length")
		// (3) the retry
		rd := &blockLog{r: r.Fork()}
		g, err := c01Garble(circ, rd, key)
		if err != nil {
			c01DoorFail(c, "abort-then-retry", i, fmt.Sprintf("garbling after one aborted at entropy read %d and three rejected keys", k), "Garble error: "+err.Error(), circ, key, nil, nil, nil)
			continue
		}
		dims, gs := CircuitSX(circ)
		buf := make([]ot.Label, circ.NumWires)
		for xi, x := range c01Inputs(r, ni, 3, 4) {
			if xi == 1 {
				// an Eval that is rejected (bad key) before the real one, on the same buffer
				c01Eval(circ, key[:len(key)-1], buf, g.Gates)
			}
			bad, got, decoded, outl := c01EvalOn(circ, key, g.Wires, g.Gates, buf, x)
			want := TruthEval(circ, x)
			c.Eval(fmt.Sprintf("door-retry|%s|%x|%s", circuitText(circ), key, bitsString(x)), true)
			if bad != "" {
				c01DoorFail(c, "abort-then-retry", i, fmt.Sprintf("garbling after one aborted at entropy read %d and three rejected keys", k), bad, circ, key, x, got, want)
				continue
			}
			if xi == 0 {
				comp, cerr := circ.Compute(SplitInputs(circ, x))
				if cerr != nil {
					continue
				}
				in := L(Bytes(key), dims, gs, Labels(rd.blocks), Bits(x), L())
				obs := L(Label(g.R), wiresSX(g.Wires), tablesSX(g.Gates), Labels(outl), L(decoded...), Bits(JoinOutputs(circ, comp)))
				c.Case(in, obs)
			}
		}
		g.Release()
	}
	return nil
}

// c01DoorFormats: the circuit reaches Garble / Eval / Compute through a circuit FILE: marshalled
// as .mpclc, .bristol and .circ, read back with circuit.Parse (by file name), then garbled and
// evaluated; the decoded outputs must be the truth-table evaluation of the circuit that was written.
func c01DoorFormats(c *Ctx) error {
	n := c.N(12, 240)
	dir, err := os.MkdirTemp("", "c01-formats-")
	if err != nil {
		return err
	}
	defer os.RemoveAll(dir)
	exts := []struct{ ext, format string }{{".mpclc", "mpclc"}, {".bristol", "bristol"}, {".circ", "bristol"}}
	for i := 0; i < n; i++ {
		r := c.rng.Fork()
		orig := GenCircuit(r, GenOpts{MinIn: 2, MaxIn: 9, MinGates: 5, MaxGates: 60, MaxOut: 6, Overwrite: i%2 == 0})
		e := exts[i%3]
		var out bytes.Buffer
		if err := orig.MarshalFormat(&out, e.format); err != nil {
			return fmt.Errorf("formats %d: marshal: %v", i, err)
		}
		file := filepath.Join(dir, fmt.Sprintf("c%d%s", i, e.ext))
		if err := os.WriteFile(file, out.Bytes(), 0600); err != nil {
			return err
		}
		circ, err := circuit.Parse(file)
		c.Hist("door:circuit-file" + e.ext)
		if err != nil {
			c01DoorFail(c, "circuit-file", i, e.ext, "Parse error: the marshalled circuit is not read back: "+err.Error(), orig, nil, nil, nil, nil)
			continue
		}
		ni := ioBits(orig.Inputs)
		if ioBits(circ.Inputs) != ni || ioBits(circ.Outputs) != ioBits(orig.Outputs) || circ.NumWires != orig.NumWires || len(circ.Gates) != len(orig.Gates) {
			c01DoorFail(c, "circuit-file", i, e.ext, "the circuit read back has other dimensions than the one written", orig, nil, nil, nil, nil)
			continue
		}
		key := r.Bytes([]int{16, 24, 32}[i%3])
		rd := &blockLog{r: r.Fork()}
		g, err := c01Garble(circ, rd, key)
		if err != nil {
			c01DoorFail(c, "circuit-file", i, e.ext, "Garble error: "+err.Error(), orig, key, nil, nil, nil)
			continue
		}
		dims, gs := CircuitSX(circ)
		buf := make([]ot.Label, circ.NumWires)
		for xi, x := range c01Inputs(r, ni, 3, 4) {
			bad, got, decoded, outl := c01EvalOn(circ, key, g.Wires, g.Gates, buf, x)
			want := TruthEval(orig, x) // of the circuit that was WRITTEN
			if bad == "" && bitsString(got) != bitsString(want) {
				bad = "garbled evaluation differs from truth-table evaluation: of the circuit that was written to the file"
			}
			comp, cerr := circ.Compute(SplitInputs(circ, x))
			if bad == "" && cerr != nil {
				bad = "Compute error: " + cerr.Error()
			}
			if bad == "" && bitsString(JoinOutputs(circ, comp)) != bitsString(want) {
				bad = "Circuit.Compute differs from truth-table evaluation: of the circuit that was written to the file"
			}
			c.Eval(fmt.Sprintf("door-file|%s|%s|%x|%s", e.ext, circuitText(orig), key, bitsString(x)), true)
			if bad != "" {
				c01DoorFail(c, "circuit-file", i, e.ext, bad, orig, key, x, got, want)
				continue
			}
			if xi == 0 {
				in := L(Bytes(key), dims, gs, Labels(rd.blocks), Bits(x), L())
				obs := L(Label(g.R), wiresSX(g.Wires), tablesSX(g.Gates), Labels(outl), L(decoded...), Bits(JoinOutputs(circ, comp)))
				c.Case(in, obs)
			}
		}
		g.Release()
	}
	return nil
}

// c01DoorIdentity: degenerate but well-formed circuits: no gate at all (the outputs ARE input
// wires), and a circuit whose gates exist but whose outputs are still input wires... the latter
// is not expressible (outputs are the last wires), so: zero gates, and one free gate only.
func c01DoorIdentity(c *Ctx) error {
	r := c.rng.Fork()
	for i := 0; i < 3; i++ {
		var circ *circuit.Circuit
		switch i {
		case 0: // no gates: r = b
			circ = &circuit.Circuit{NumGates: 0, NumWires: 3,
				Inputs:  circuit.IO{{Name: "a", Type: uintInfo(1)}, {Name: "b", Type: uintInfo(2)}},
				Outputs: circuit.IO{{Name: "r", Type: uintInfo(2)}}}
		case 1: // no gates, one wire
			circ = &circuit.Circuit{NumGates: 0, NumWires: 1,
				Inputs:  circuit.IO{{Name: "a", Type: uintInfo(1)}},
				Outputs: circuit.IO{{Name: "r", Type: uintInfo(1)}}}
		default: // outputs: an input wire and one XNOR
			circ = &circuit.Circuit{NumGates: 1, NumWires: 3,
				Gates:   []circuit.Gate{{Input0: 0, Input1: 1, Output: 2, Op: circuit.XNOR}},
				Inputs:  circuit.IO{{Name: "a", Type: uintInfo(2)}},
				Outputs: circuit.IO{{Name: "r", Type: uintInfo(2)}}}
			circ.Stats[circuit.XNOR]++
		}
		c.Hist("door:circuit-whose-outputs-are-input-wires")
		ni := ioBits(circ.Inputs)
		for round := 0; round < 2; round++ {
			key := r.Bytes(16 + 8*round)
			rd := &blockLog{r: r.Fork()}
			g, err := c01Garble(circ, rd, key)
			if err != nil {
				c01DoorFail(c, "outputs-are-input-wires", i, fmt.Sprintf("round %d", round), "Garble error: "+err.Error(), circ, key, nil, nil, nil)
				continue
			}
			dims, gs := CircuitSX(circ)
			buf := make([]ot.Label, circ.NumWires)
			for _, x := range c01Inputs(r, ni, 3, 4) {
				bad, got, decoded, outl := c01EvalOn(circ, key, g.Wires, g.Gates, buf, x)
				want := TruthEval(circ, x)
				comp, cerr := circ.Compute(SplitInputs(circ, x))
				if bad == "" && cerr != nil {
					bad = "Compute error: " + cerr.Error()
				}
				if bad == "" && bitsString(JoinOutputs(circ, comp)) != bitsString(want) {
					bad = "Circuit.Compute differs from truth-table evaluation"
				}
				c.Eval(fmt.Sprintf("door-identity|%d|%x|%s", i, key, bitsString(x)), false)
				if bad != "" {
					c01DoorFail(c, "outputs-are-input-wires", i, fmt.Sprintf("round %d", round), bad, circ, key, x, got, want)
					continue
				}
				in := L(Bytes(key), dims, gs, Labels(rd.blocks), Bits(x), L())
				obs := L(Label(g.R), wiresSX(g.Wires), tablesSX(g.Gates), Labels(outl), L(decoded...), Bits(JoinOutputs(circ, comp)))
				c.Case(in, obs)
			}
			g.Release()
		}
	}
	return nil
}

// c01DoorLarge: more than 65536 gates, wires and garbled rows (16-bit indices, chunked slabs);
// oracle only (the extracted model would need minutes).
func c01DoorLarge(c *Ctx) error {
	n := c.N(1, 4)
	for i := 0; i < n; i++ {
		r := c.rng.Fork()
		circ := GenCircuit(r, GenOpts{MinIn: 24, MaxIn: 40, MinGates: 66000, MaxGates: 72000, MaxOut: 8, Overwrite: i%2 == 1})
		ni := ioBits(circ.Inputs)
		key := r.Bytes(32)
		for round := 0; round < 2; round++ {
			g, err := c01Garble(circ, &blockLog{r: r.Fork()}, key)
			if err != nil {
				c01DoorFail(c, "more-than-65536-gates", i, fmt.Sprintf("round %d", round), "Garble error: "+err.Error(), circ, key, nil, nil, nil)
				continue
			}
			buf := make([]ot.Label, circ.NumWires)
			for _, x := range c01Inputs(r, ni, 0, 3) {
				bad, got, _, _ := c01EvalOn(circ, key, g.Wires, g.Gates, buf, x)
				want := TruthEval(circ, x)
				if bad == "" {
					comp, cerr := circ.Compute(SplitInputs(circ, x))
					if cerr != nil {
						bad = "Compute error: " + cerr.Error()
					} else if bitsString(JoinOutputs(circ, comp)) != bitsString(want) {
						bad = "Circuit.Compute differs from truth-table evaluation"
					}
				}
				c.Eval(fmt.Sprintf("door-large|%d|%d|%s", i, round, bitsString(x)), true)
				if bad != "" {
					c01DoorFail(c, "more-than-65536-gates", i, fmt.Sprintf("round %d", round), bad, circ, key, x, got, want)
				}
			}
			g.Release()
		}
		c.Hist("door:circuit-with-more-than-65536-gates")
	}
	return nil
}

// c01DoorConcurrentGarble: several goroutines garble ONE *Circuit at the same time, each with its
// own key and randomness, and each evaluates ITS OWN garbling straight from the live object
// before releasing it (the concurrent phase of c01.go evaluates concurrently but garbles
// sequentially; its background garbling is thrown away unevaluated).  Oracle only.
func c01DoorConcurrentGarble(c *Ctx) error {
	nc := c.N(3, 40)
	for ci := 0; ci < nc; ci++ {
		r := c.rng.Fork()
		circ := GenCircuit(r, GenOpts{MinIn: 4, MaxIn: 10, MinGates: 300, MaxGates: 700, MaxOut: 8, Overwrite: true})
		ni := ioBits(circ.Inputs)
		const K = 6
		type res struct {
			bad, step string
			key       []byte
			x, got    []bool
		}
		out := make([]res, K)
		rngs := make([]*RNG, K)
		for k := range rngs {
			rngs[k] = r.Fork()
		}
		start := make(chan struct{})
		var wg sync.WaitGroup
		for k := 0; k < K; k++ {
			wg.Add(1)
			go func(k int) {
				defer wg.Done()
				defer func() {
					if p := recover(); p != nil && out[k].bad == "" {
						out[k].bad = fmt.Sprintf("panic: %v", p)
					}
				}()
				rr := rngs[k]
				<-start
				for rep := 0; rep < 5; rep++ {
					key := rr.Bytes([]int{16, 24, 32}[(k+rep)%3])
					g, err := c01Garble(circ, &blockLog{r: rr.Fork()}, key)
					if err != nil {
						out[k] = res{bad: "Garble error: " + err.Error(), key: key}
						return
					}
					snap := c01SnapOf(g)
					buf := make([]ot.Label, circ.NumWires)
					for j := 0; j < 3; j++ {
						x := make([]bool, ni)
						for b := range x {
							x[b] = rr.Bool()
						}
						bad, got, _, _ := c01EvalOn(circ, key, g.Wires, g.Gates, buf, x)
						if bad == "" {
							bad = snap.same(g)
						}
						if bad != "" && out[k].bad == "" {
							out[k] = res{bad: bad, step: fmt.Sprintf("goroutine %d garbling %d", k, rep), key: key, x: x, got: got}
						}
					}
					g.Release()
				}
			}(k)
		}
		close(start)
		wg.Wait()
		c.Hist("door:concurrent-Garble-on-one-circuit")
		for k := range out {
			c.Eval(fmt.Sprintf("door-concgarble|%d|%d", ci, k), true)
			if out[k].bad != "" {
				var want []bool
				if out[k].x != nil {
					want = TruthEval(circ, out[k].x)
				}
				c01DoorFail(c, "concurrent-garble-on-one-circuit", ci, out[k].step, out[k].bad, circ, out[k].key, out[k].x, out[k].got, want)
			}
		}
	}
	return nil
}

// c01DoorSha2pc: the caller of Garble / Eval / LabelForBit / BitFromLabel in another package:
// sha2pc garbles its package-level SHA-256 circuit (one shared *Circuit, > 100 000 gates, 512
// input wires, key of 32 bytes, never Released, tables handed on as they are).  Two sessions
// OVERLAP: both are garbled before either is evaluated.  Oracle: digest = SHA-256(a xor b).
func c01DoorSha2pc(c *Ctx) error {
	n := c.N(1, 6)
	for i := 0; i < n; i++ {
		r := c.rng.Fork()
		type sess struct {
			a, b [32]byte
			es   *sha2pc.EvaluatorSession
			r3   sha2pc.Round3Payload
		}
		var ss [2]*sess
		for k := range ss {
			s := &sess{}
			copy(s.a[:], r.Bytes(32))
			copy(s.b[:], r.Bytes(32))
			if i%2 == 1 && k == 1 {
				for j := range s.a {
					s.a[j], s.b[j] = 0xff, 0
				}
			}
			curve := sha2pc.CurveP256
			r1, gs, err := sha2pc.GarblerRound1(r.Fork(), curve)
			if err != nil {
				return fmt.Errorf("sha2pc round 1: %v", err)
			}
			r2, es, err := sha2pc.EvaluatorRound2(r.Fork(), curve, r1, s.b)
			if err != nil {
				return fmt.Errorf("sha2pc round 2: %v", err)
			}
			r3, err := sha2pc.GarblerRound3(r.Fork(), curve, gs, s.a, r2)
			if err != nil {
				return fmt.Errorf("sha2pc round 3: %v", err)
			}
			s.es, s.r3 = es, r3
			ss[k] = s
		}
		for k, s := range ss {
			digest, err := sha2pc.EvaluatorRound4(sha2pc.CurveP256, s.es, s.r3)
			var x [32]byte
			for j := range x {
				x[j] = s.a[j] ^ s.b[j]
			}
			want := sha256.Sum256(x[:])
			bad := ""
			if err != nil {
				bad = "Eval error: sha2pc.EvaluatorRound4: " + err.Error()
			} else if digest != want {
				bad = "garbled evaluation differs from plain evaluation: sha2pc digest is not SHA-256(a xor b)"
			}
			c.Eval(fmt.Sprintf("door-sha2pc|%x|%x", s.a, s.b), true)
			c.Hist("door:sha2pc-overlapping-sessions")
			if bad != "" {
				c.Fail("c01:door:sha2pc:"+strings.SplitN(bad, ":", 2)[0], bad, map[string]string{
					"session": fmt.Sprintf("%d of 2 (both garbled before either is evaluated)", k+1),
					"a":       fmt.Sprintf("%x", s.a), "b": fmt.Sprintf("%x", s.b), "got": fmt.Sprintf("%x", digest), "want": fmt.Sprintf("%x", want)})
			}
		}
	}
	return nil
}

// c01DoorDefaultConfig: circuit.Garbler with an env.Config that names no random source (the
// default: crypto/rand) - what every front end under apps/ does.  Oracle only (the randomness is
// not the harness's); the inputs and the expected result are deterministic.
func c01DoorDefaultConfig(c *Ctx) error {
	n := c.N(3, 20)
	for i := 0; i < n; i++ {
		r := c.rng.Fork()
		circ := GenCircuit(r, GenOpts{MinIn: 2, MaxIn: 16, MinGates: 8, MaxGates: 60, MaxOut: 10, Overwrite: true, TwoParty: true})
		n0, n1 := int(circ.Inputs[0].Type.Bits), int(circ.Inputs[1].Type.Bits)
		x := make([]bool, n0+n1)
		for k := range x {
			x[k] = r.Bool()
		}
		gIn, eIn := bitsToBig(x[:n0]), bitsToBig(x[n0:])
		gBefore, eBefore := gIn.Text(16), eIn.Text(16)
		kind := otKinds[i%2]
		res := runSession(circ, gIn, eIn, nil, kind.mk(r.Fork()), kind.mk(r.Fork()), 0, r.Fork(), nil, 60*time.Second)
		want := TruthEval(circ, x)
		var wantArgs []*big.Int
		ofs := 0
		for _, o := range circ.Outputs {
			wantArgs = append(wantArgs, bitsToBig(want[ofs:ofs+int(o.Type.Bits)]))
			ofs += int(o.Type.Bits)
		}
		bad := ""
		switch {
		case res.stalled:
			bad = "session stalled"
		case res.gErr != nil:
			bad = "Garbler error: " + res.gErr.Error()
		case res.eErr != nil:
			bad = "Evaluator error: " + res.eErr.Error()
		case bigsString(res.gRes) != bigsString(wantArgs):
			bad = "circuit.Garbler returns values that differ from the truth-table evaluation"
		case bigsString(res.eRes) != bigsString(wantArgs):
			bad = "circuit.Evaluator returns values that differ from the truth-table evaluation"
		case gIn.Text(16) != gBefore || eIn.Text(16) != eBefore:
			bad = "the wrappers modified their input arguments"
		}
		c.Hist("door:wrapper-with-default-random-source")
		c.Eval(fmt.Sprintf("door-defcfg|%s|%s", circuitText(circ), bitsString(x)), bad == "")
		if bad != "" {
			c.Fail("c01:door:default-config:"+strings.SplitN(bad, ":", 2)[0], bad, map[string]interface{}{
				"circuit": circuitText(circ), "x": bitsString(x[:n0]), "y": bitsString(x[n0:]), "ot": kind.name,
				"garbler_returns": bigsString(res.gRes), "evaluator_returns": bigsString(res.eRes), "want": bigsString(wantArgs)})
		}
	}
	return nil
}
