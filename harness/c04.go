package main

import (
	"bytes"
	"crypto/elliptic"
	"fmt"
	"math/big"
	"path/filepath"
	"strings"
	"time"

	"github.com/markkurossi/mpc/circuit"
	"github.com/markkurossi/mpc/compiler"
	"github.com/markkurossi/mpc/compiler/utils"
	"github.com/markkurossi/mpc/env"
	"github.com/markkurossi/mpc/ot"
	"github.com/markkurossi/mpc/p2p"
)

func init() { register("c04", runC04) }

func labelBytes(l ot.Label) [16]byte {
	var b [16]byte
	var d ot.LabelData
	l.GetData(&d)
	copy(b[:], d[:])
	return b
}

// scanR scans a byte stream at EVERY byte offset: reports offsets i where the
// 16-byte window equals R, and pairs (j < i) of windows that differ by R.
func scanR(stream []byte, r ot.Label) (self []int, pairs [][2]int) {
	rb := labelBytes(r)
	seen := make(map[[16]byte]int, len(stream))
	var w, t [16]byte
	for i := 0; i+16 <= len(stream); i++ {
		copy(w[:], stream[i:i+16])
		if w == rb {
			self = append(self, i)
		}
		for k := 0; k < 16; k++ {
			t[k] = w[k] ^ rb[k]
		}
		if j, ok := seen[t]; ok {
			pairs = append(pairs, [2]int{j, i})
		}
		if _, ok := seen[w]; !ok {
			seen[w] = i
		}
	}
	return
}

// slotPairs: pairs of transcript slots (i <= j) that are R apart; i == j
// means the slot is R itself.  Same convention as the model's r_pairs.
func slotPairs(slots []ot.Label, r ot.Label) [][2]int {
	var res [][2]int
	for i := range slots {
		if slots[i].Equal(r) {
			res = append(res, [2]int{i, i})
		}
		for j := i + 1; j < len(slots); j++ {
			x := slots[i]
			x.Xor(slots[j])
			if x.Equal(r) {
				res = append(res, [2]int{i, j})
			}
		}
	}
	return res
}

func pairsSX(n int, p [][2]int) SX {
	l := make([]SX, len(p))
	for i, x := range p {
		l[i] = L(I(x[0]), I(x[1]))
	}
	return L(I(n), L(l...))
}

type c04Replay struct {
	Seed    uint64   `json:"seed"`
	Mode    string   `json:"mode"`
	Case    int      `json:"case"`
	Detail  string   `json:"detail"`
	R       string   `json:"R"`
	Offsets [][2]int `json:"offsets_or_slots"`
	Self    []int    `json:"offsets_equal_R"`
	Program string   `json:"program,omitempty"`
	Inputs  string   `json:"inputs,omitempty"`
}

// recOT wraps an ot.OT and records what goes through it: the wires the
// sender offers and the labels the receiver ends with.
type recOT struct {
	ot.OT
	sent [][]ot.Wire
	recv [][]ot.Label
}

func (r *recOT) Send(wires []ot.Wire) error {
	r.sent = append(r.sent, append([]ot.Wire(nil), wires...))
	return r.OT.Send(wires)
}

func (r *recOT) Receive(flags []bool, result []ot.Label) error {
	err := r.OT.Receive(flags, result)
	if err == nil {
		r.recv = append(r.recv, append([]ot.Label(nil), result...))
	}
	return err
}

// otLeaks checks the OT hand-off against the clear transcript: (1) no label of a
// wire offered through the OT may also travel in clear (the evaluator would hold
// both labels whenever its choice differs); (2) no delivered label is R apart
// from a transmitted 16-byte window or from another delivered label, nor is R.
func otLeaks(stream []byte, r ot.Label, sent [][]ot.Wire, recv [][]ot.Label) []string {
	var res []string
	win := make(map[[16]byte]int, len(stream))
	var w [16]byte
	for i := 0; i+16 <= len(stream); i++ {
		copy(w[:], stream[i:i+16])
		if _, ok := win[w]; !ok {
			win[w] = i
		}
	}
	for bi, batch := range sent {
		for wi, wr := range batch {
			if off, ok := win[labelBytes(wr.L0)]; ok {
				res = append(res, fmt.Sprintf("OT batch %d wire %d: L0 also transmitted in clear at offset %d", bi, wi, off))
			}
			if off, ok := win[labelBytes(wr.L1)]; ok {
				res = append(res, fmt.Sprintf("OT batch %d wire %d: L1 also transmitted in clear at offset %d", bi, wi, off))
			}
		}
	}
	var all []ot.Label
	for _, b := range recv {
		all = append(all, b...)
	}
	seen := map[[16]byte]int{}
	for i, d := range all {
		if d.Equal(r) {
			res = append(res, fmt.Sprintf("OT-delivered label %d is R", i))
		}
		x := d
		x.Xor(r)
		if off, ok := win[labelBytes(x)]; ok {
			res = append(res, fmt.Sprintf("OT-delivered label %d xor R is transmitted in clear at offset %d", i, off))
		}
		if j, ok := seen[labelBytes(x)]; ok {
			res = append(res, fmt.Sprintf("OT-delivered labels %d and %d differ by R", j, i))
		}
		seen[labelBytes(d)] = i
	}
	if len(res) > 12 {
		res = res[:12]
	}
	return res
}

func setS(l ot.Label) ot.Label {
	l.SetS(true)
	return l
}

// ---- streaming through the exported circuit.NewStreaming API
type streamStep struct {
	circ    *circuit.Circuit
	in, out []circuit.Wire
}

func stepsSX(steps []streamStep) SX {
	l := make([]SX, len(steps))
	for i, s := range steps {
		_, gs := CircuitSX(s.circ)
		in := make([]int, len(s.in))
		for k, w := range s.in {
			in[k] = int(w)
		}
		out := make([]int, len(s.out))
		for k, w := range s.out {
			out[k] = int(w)
		}
		l[i] = L(I(s.circ.NumWires), Ints(in), Ints(out), gs)
	}
	return L(l...)
}

// parseStreamRows extracts the garbled rows from the bytes Streaming.Garble
// wrote (op byte, 16- or 32-bit wire ids, rows).
func parseStreamRows(data []byte, steps []streamStep) ([][]ot.Label, error) {
	var rows [][]ot.Label
	pos := 0
	for _, s := range steps {
		for _, g := range s.circ.Gates {
			if pos >= len(data) {
				return nil, fmt.Errorf("stream too short")
			}
			op := data[pos]
			pos++
			if circuit.Operation(op&0x0f) != g.Op {
				return nil, fmt.Errorf("unexpected op byte %#x for %s", op, g.Op)
			}
			idw := 4
			if op&0b00010000 != 0 {
				idw = 2
			}
			nids := 3
			nrows := 0
			switch g.Op {
			case circuit.AND:
				nrows = 2
			case circuit.OR:
				nrows = 3
			case circuit.INV:
				nrows = 1
				nids = 2
			}
			pos += idw * nids
			var row []ot.Label
			for k := 0; k < nrows; k++ {
				if pos+16 > len(data) {
					return nil, fmt.Errorf("stream too short")
				}
				var l ot.Label
				l.SetBytes(data[pos : pos+16])
				row = append(row, l)
				pos += 16
			}
			rows = append(rows, row)
		}
	}
	if pos != len(data) {
		return nil, fmt.Errorf("trailing %d bytes", len(data)-pos)
	}
	return rows, nil
}

// genStream builds a random sequence of streamed circuits over a global
// wire store.  directed: single AND gates that share their first input (the
// shape that exposes tweak reuse across streamed circuits).
func genStream(r *RNG, directed bool) (ni int, G int, n int, steps []streamStep) {
	ni = r.Range(2, 6)
	next := ni
	assigned := []int{}
	for i := 0; i < ni; i++ {
		assigned = append(assigned, i)
	}
	nsteps := r.Range(2, 6)
	maxnw := 0
	for s := 0; s < nsteps; s++ {
		var c *circuit.Circuit
		var in []circuit.Wire
		if directed {
			c = &circuit.Circuit{NumGates: 1, NumWires: 3,
				Gates:   []circuit.Gate{{Input0: 0, Input1: 1, Output: 2, Op: circuit.AND}},
				Inputs:  circuit.IO{{Name: "a", Type: uintInfo(2)}},
				Outputs: circuit.IO{{Name: "r", Type: uintInfo(1)}}}
			in = []circuit.Wire{0, circuit.Wire(assigned[1+r.Intn(len(assigned)-1)])}
		} else {
			k := r.Range(1, 4)
			c = GenCircuit(r, GenOpts{MinIn: k, MaxIn: k, MinGates: 1, MaxGates: 12, MaxOut: 3, Overwrite: false})
			for i := 0; i < k; i++ {
				in = append(in, circuit.Wire(assigned[r.Intn(len(assigned))]))
			}
		}
		no := c.Outputs.Size()
		var out []circuit.Wire
		for i := 0; i < no; i++ {
			out = append(out, circuit.Wire(next))
			next++
		}
		for _, w := range out {
			assigned = append(assigned, int(w))
		}
		if c.NumWires > maxnw {
			maxnw = c.NumWires
		}
		steps = append(steps, streamStep{c, in, out})
	}
	G = next
	n = G + maxnw
	return
}

func runStreamAPI(c *Ctx, idx int, directed bool) error {
	r := c.rng.Fork()
	ni, G, n, steps := genStream(r, directed)
	mode := "stream-api"
	if directed {
		mode = "stream-api-directed"
	}
	return runStreamAPIWith(c, r, idx, mode, ni, G, n, steps, true)
}

// runStreamAPIWith: one session through circuit.NewStreaming / Streaming.Garble over the given
// steps: oracle (slot pairs, byte scan) and the correspondence cases (kind 1: the symbolic model's
// R-pairs, only when symbolic is set - it is quadratic in the number of slots; kind 2: the concrete
// model's byte-exact rows).
func runStreamAPIWith(c *Ctx, r *RNG, idx int, mode string, ni, G, n int, steps []streamStep, symbolic bool) error {
	directed := mode == "stream-api-directed"
	key := r.Bytes(32)
	rd := &blockLog{r: r.Fork()}
	q := newFragQueue(r.Fork(), 0)
	sink := &duplex{r: newFragQueue(r.Fork(), 0), w: q}
	conn := p2p.NewConn(sink)
	inputs := make([]circuit.Wire, ni)
	for i := range inputs {
		inputs[i] = circuit.Wire(i)
	}
	stream, err := circuit.NewStreaming(&env.Config{Rand: rd}, key, inputs, conn)
	if err != nil {
		return err
	}
	for k, s := range steps {
		if err := streamingGarble(stream, k, s.circ, s.in, s.out); err != nil {
			return fmt.Errorf("Streaming.Garble: %v", err)
		}
	}
	if err := conn.Flush(); err != nil {
		return err
	}
	// wait for the writer goroutine
	deadline := time.Now().Add(5 * time.Second)
	var data []byte
	for {
		q.mu.Lock()
		data = append([]byte(nil), q.log...)
		q.mu.Unlock()
		if uint64(len(data)) >= conn.Stats.Sent.Load() || time.Now().After(deadline) {
			break
		}
		time.Sleep(time.Millisecond)
	}
	go conn.Close()
	rows, err := parseStreamRows(data, steps)
	if err != nil {
		c.Fail("c04:stream-api:parse", "cannot parse the bytes Streaming.Garble wrote: "+err.Error(), nil)
		return nil
	}
	R := setS(rd.blocks[0])
	x := make([]bool, ni)
	for i := range x {
		x[i] = r.Bool()
	}
	perm := make([]bool, 64)
	for i := range perm {
		perm[i] = r.Bool()
	}
	var slots []ot.Label
	for i := 0; i < ni; i++ {
		slots = append(slots, circuit.LabelForBit(stream.GetInput(circuit.Wire(i)), x[i]))
	}
	rowsSX := make([]SX, len(rows))
	for i, row := range rows {
		slots = append(slots, row...)
		rowsSX[i] = Labels(row)
	}
	pairs := slotPairs(slots, R)
	self, bp := scanR(data, R)
	c.Hist("mode:" + mode)
	c.Eval(fmt.Sprintf("%s|%d|%x", mode, idx, key), true)
	if len(pairs) > 0 || len(self) > 0 || len(bp) > 0 {
		c.Fail("c04:streaming:values-differ-by-R", "the streamed garbling contains values that differ by the secret offset R (or R itself)",
			c04Replay{Seed: c.Seed, Mode: mode, Case: idx, R: R.String(), Offsets: append(pairs, bp...), Self: self,
				Detail: fmt.Sprintf("%d streamed circuits, %d slots", len(steps), len(slots))})
	}
	if symbolic {
		c.Case(L(I(1), I(G), I(ni), I(n), stepsSX(steps), Bits(x), Bits(perm)), pairsSX(len(slots), pairs))
	}
	c.Case(L(I(2), Bytes(key), I(G), I(ni), I(n), stepsSX(steps), Labels(rd.blocks)), L(Label(R), L(rowsSX...)))
	if directed && len(c.samples) < 3 {
		c.Sample(map[string]interface{}{"mode": mode, "steps": len(steps), "slots": len(slots), "pairs_R_apart": len(pairs)})
	}
	return nil
}

// ---- whole-circuit: slots of one garbling, and the byte scan of full sessions
func runWholeSlots(c *Ctx, idx int) error {
	r := c.rng.Fork()
	circ := GenCircuit(r, GenOpts{MinIn: 1, MaxIn: 8, MinGates: 1, MaxGates: 40, MaxOut: 6, Overwrite: true})
	key := r.Bytes(32)
	rd := &blockLog{r: r.Fork()}
	g, err := circ.Garble(rd, key)
	if err != nil {
		return err
	}
	ni := circ.Inputs.Size()
	x := make([]bool, ni)
	for i := range x {
		x[i] = r.Bool()
	}
	perm := make([]bool, 64)
	for i := range perm {
		perm[i] = r.Bool()
	}
	var slots []ot.Label
	for i := 0; i < ni; i++ {
		slots = append(slots, circuit.LabelForBit(g.Wires[i], x[i]))
	}
	for _, row := range g.Gates {
		slots = append(slots, row...)
	}
	pairs := slotPairs(slots, g.R)
	c.Hist("mode:whole-slots")
	c.Eval(fmt.Sprintf("whole|%s|%x|%s", circuitText(circ), key, bitsString(x)), len(slots) > ni)
	if len(pairs) > 0 {
		c.Fail("c04:whole-circuit:values-differ-by-R", "garbled tables / input labels contain values differing by R",
			c04Replay{Seed: c.Seed, Mode: "whole-slots", Case: idx, R: g.R.String(), Offsets: pairs, Detail: circuitText(circ)})
	}
	dims, gs := CircuitSX(circ)
	c.Case(L(I(0), dims, gs, Bits(x), Bits(perm)), pairsSX(len(slots), pairs))
	if idx < 2 {
		c.Sample(map[string]interface{}{"mode": "whole-slots", "circuit": circuitText(circ), "slots": len(slots), "pairs_R_apart": len(pairs)})
	}
	g.Release()
	return nil
}

func runWholeSession(c *Ctx, idx int) error {
	r := c.rng.Fork()
	circ := GenCircuit(r, GenOpts{MinIn: 2, MaxIn: 10, MinGates: 5, MaxGates: 60, MaxOut: 6, Overwrite: true, TwoParty: true})
	n0 := int(circ.Inputs[0].Type.Bits)
	n1 := int(circ.Inputs[1].Type.Bits)
	x := make([]bool, n0)
	y := make([]bool, n1)
	for k := range x {
		x[k] = r.Bool()
	}
	for k := range y {
		y[k] = r.Bool()
	}
	kind := otKinds[idx%3]
	grand := &blockLog{r: r.Fork(), skipKey: true}
	if idx%4 == 1 {
		// garbler bits all 1 (every label sent in clear is L0 ^ R); the configured entropy source
		// hands out at most 32 bytes per call
		for k := range x {
			x[k] = true
		}
		grand.maxRead = 32
		c.Hist("mode:whole-session:garbler-input-all-ones:source-reads-at-most-32-bytes")
	}
	gOT := &recOT{OT: kind.mk(r.Fork())}
	eOT := &recOT{OT: kind.mk(r.Fork())}
	res := runSession(circ, bitsToBig(x), bitsToBig(y), grand, gOT, eOT, 0, r.Fork(), nil, 60*time.Second)
	if res.gErr != nil || res.eErr != nil || res.stalled {
		c.Fail("c04:session-failed", fmt.Sprintf("session did not complete: %v %v", res.gErr, res.eErr), nil)
		return nil
	}
	R := setS(grand.blocks[0])
	self, pairs := scanR(res.g2e, R)
	if leaks := otLeaks(res.g2e, R, gOT.sent, eOT.recv); len(leaks) > 0 {
		c.Fail("c04:whole-circuit:ot-handoff-leaks-second-label", "a wire offered through the OT also has a label in the clear transcript / a delivered label is R apart from transmitted data",
			c04Replay{Seed: c.Seed, Mode: "whole-session:" + kind.name, Case: idx, R: R.String(), Detail: strings.Join(leaks, "; ")})
	}
	c.Hist("mode:whole-session:" + kind.name)
	c.Eval(fmt.Sprintf("session|%s|%s|%s|%s", circuitText(circ), bitsString(x), bitsString(y), kind.name), true)
	c.Note("whole-circuit session %d (%s): %d transcript bytes scanned at every offset", idx, kind.name, len(res.g2e))
	if len(self) > 0 || len(pairs) > 0 {
		c.Fail("c04:whole-circuit:transcript-leaks-R", "the garbler->evaluator transcript contains R or two 16-byte values differing by R",
			c04Replay{Seed: c.Seed, Mode: "whole-session:" + kind.name, Case: idx, R: R.String(), Offsets: pairs, Self: self,
				Detail: circuitText(circ), Inputs: bitsString(x) + "/" + bitsString(y)})
	}
	return nil
}

// runEntropyFaultSession: the property quantifies over all randomness, and the entropy source is
// a caller-supplied option (env.Config.Rand): a source that fails ONCE, at the k-th read, and
// works afterwards.  The garbler may abort (nothing to leak); if the session completes, the offset
// it garbled with is the block it drew for R — or the zero label with the S bit set when exactly
// that read failed (ot.NewLabel returns the zero label on error) — and the transcript is scanned
// with it as usual.
func runEntropyFaultSession(c *Ctx, idx int) error {
	r := c.rng.Fork()
	circ := GenCircuit(r, GenOpts{MinIn: 4, MaxIn: 10, MinGates: 8, MaxGates: 40, MaxOut: 6, Overwrite: true, TwoParty: true})
	n0 := int(circ.Inputs[0].Type.Bits)
	n1 := int(circ.Inputs[1].Type.Bits)
	x := make([]bool, n0)
	y := make([]bool, n1)
	for k := range x {
		x[k] = true // garbler bits 1: the label sent in the clear is L1 = L0 ^ R
	}
	for k := range y {
		y[k] = r.Bool()
	}
	// reads of a session: 1 = session key, 2 = R, 3.. = one per input wire
	ks := []int{1, 2, 3, 4, 2 + n0, 3 + n0, 2 + n0 + n1}
	k := ks[idx%len(ks)]
	grand := &blockLog{r: r.Fork(), skipKey: true, failAt: k}
	kind := otKinds[0]
	res := runSession(circ, bitsToBig(x), bitsToBig(y), grand, kind.mk(r.Fork()), kind.mk(r.Fork()), 0, r.Fork(), nil, 20*time.Second)
	c.Hist("mode:whole-session:entropy-source-fails-once")
	c.Eval(fmt.Sprintf("entropy|%d|%s|%s", k, circuitText(circ), bitsString(y)), true)
	if !grand.failed {
		c.Note("entropy-fault session %d: the source was read fewer than %d times", idx, k)
		return nil
	}
	if res.gErr != nil || res.stalled {
		c.Hist("entropy-fault:garbler-aborted")
		return nil
	}
	c.Hist("entropy-fault:garbler-completed")
	var R ot.Label
	if k != 2 && len(grand.blocks) > 0 {
		R = grand.blocks[0]
	}
	R = setS(R)
	self, pairs := scanR(res.g2e, R)
	if len(self) > 0 || len(pairs) > 0 {
		c.Fail("c04:whole-circuit:entropy-failure:transcript-leaks-R",
			fmt.Sprintf("the entropy source (env.Config.Rand) failed once, at read %d of the session (1 = key, 2 = R, 3.. = input labels); the garbler completed the session and its garbler->evaluator transcript contains the offset R or two 16-byte values differing by R", k),
			c04Replay{Seed: c.Seed, Mode: "whole-session:entropy-fault", Case: idx, R: R.String(), Offsets: pairs, Self: self,
				Detail: circuitText(circ), Inputs: bitsString(x) + "/" + bitsString(y)})
	}
	return nil
}

// ---- full streaming sessions through the compiler
var c04Programs = []string{
	"package main\nfunc main(a, b uint8) uint8 {\n\tc := b + 1\n\treturn (a & b) ^ (a & c)\n}\n",
	"package main\nfunc main(a, b uint16) uint16 {\n\tx := a * b\n\ty := a * (b + 3)\n\treturn x ^ y\n}\n",
	"package main\nfunc main(a, b int32) int32 {\n\tif a > b {\n\t\treturn a - b\n\t}\n\treturn b - a\n}\n",
	"package main\nfunc main(a, b uint8) (uint8, bool) {\n\ts := a + b\n\tt := a | b\n\treturn s & t, s < t\n}\n",
	"package main\nfunc main(a, b uint32) uint32 {\n\tvar r uint32\n\tfor i := 0; i < 4; i++ {\n\t\tr = r + (a & (b >> i))\n\t}\n\treturn r\n}\n",
	// native circuit files called directly (the path pkg/math and pkg/crypto use), with full-width
	// arguments and with a constant narrower than the circuit input in the last / first position
	"package main\nfunc main(a, b uint64) uint64 {\n\treturn native(\"mul64.circ\", a, 5) + b\n}\n",
	"package main\nfunc main(a, b uint64) uint64 {\n\treturn native(\"mul64.circ\", a, b)\n}\n",
	"package main\nfunc main(a, b uint64) uint64 {\n\treturn native(\"add64.circ\", 5, a) ^ native(\"sub64.circ\", b, 3)\n}\n",
}

// programs whose garbler argument ends just below the 64K wire-page boundary so
// that the evaluator's input wires straddle it (in0 < 65536 < in0 + in1)
var c04PageProgram = "package main\nfunc main(g [%d]byte, e uint32) uint32 {\n\treturn e ^ uint32(g[0]) ^ uint32(g[%d])\n}\n"

var c04SlicePrograms = []struct{ src, gIn string }{
	{"package main\nfunc main(g [9]uint64, e uint8) uint64 {\n\tvar tab [8]uint64\n\tfor i := 0; i < len(tab); i++ {\n\t\ttab[i] = uint64(i + 1)\n\t}\n\ts := tab[0:8]\n\th := g[0:1]\n\treturn s[e] ^ h[e]\n}\n",
		"0x" + strings.Repeat("ff", 72)},
	{"package main\nfunc main(a [8]byte, i uint8) (byte, byte) {\n\tl := a[2:8]\n\ts := a[0:1]\n\treturn l[i & 3], s[i & 1]\n}\n",
		"0xfffefdfcfbfaf9f8"},
	{"package main\nfunc main(a [8]byte, i uint8) (bool, bool, byte) {\n\tlong := a[2:7] == a[3:8]\n\tshort := a[0:1] == a[1:2]\n\treturn long, short, a[7] + i\n}\n",
		"0xffffffffffffffff"},
}

func runStreamSession(c *Ctx, idx int) error {
	r := c.rng.Fork()
	src := c04Programs[idx%len(c04Programs)]
	gIn := ""
	eIn := ""
	if idx%5 == 4 {
		// 8190..8191 bytes: 65520 or 65528 garbler wires + 32 evaluator wires
		nb := 8190 + (idx/5)%2
		src = fmt.Sprintf(c04PageProgram, nb, nb-1)
		gIn = "0x" + strings.Repeat(fmt.Sprintf("%02x", r.Intn(256)), nb)
		eIn = fmt.Sprintf("0x%08x", uint32(r.U64()))
	}
	if idx%5 == 3 {
		// programs whose streamed instructions differ only in the LENGTH of a slice operand
		// (the per-instruction circuit cache of Program.Stream must not confuse them), with a
		// garbler input that has many 1 bits
		x := c04SlicePrograms[(idx/5)%len(c04SlicePrograms)]
		src, gIn, eIn = x.src, x.gIn, fmt.Sprint(r.Intn(4))
		c.Hist("mode:stream-session:slices-of-different-lengths")
	}
	ga, ea, g2e, _ := newDuplexPair(r, 0)
	gConn := p2p.NewConn(ga)
	eConn := p2p.NewConn(ea)
	grand := &blockLog{r: r.Fork(), skipKey: true}
	if idx%2 == 1 {
		grand.maxRead = 32 // a source that hands out at most 32 bytes per call
	}
	if idx%6 == 5 {
		// the configured entropy source fails once: at the read of R (1) or of an input label
		grand.failAt = 1 + (idx/6)%3
		c.Hist("mode:stream-session:entropy-source-fails-once")
	}
	params := utils.NewParams()
	defer params.Close()
	params.Config = &env.Config{Rand: grand}
	av := r.Intn(200)
	bv := r.Intn(200)
	if gIn == "" {
		gIn = fmt.Sprint(av)
		eIn = fmt.Sprint(bv)
	}
	gOT := &recOT{OT: ot.NewCO(r.Fork())}
	eOT := &recOT{OT: ot.NewCO(r.Fork())}
	type out struct {
		vals []*big.Int
		err  error
	}
	gch := make(chan out, 1)
	ech := make(chan out, 1)
	go func() {
		defer func() {
			if p := recover(); p != nil {
				gch <- out{nil, fmt.Errorf("panic: %v", p)}
			}
		}()
		name := "c04"
		if strings.Contains(src, "native(") {
			// native circuit files are resolved relative to the source file's directory
			name = filepath.Join(verifRepo(), "pkg", "math", "c04native.mpcl")
		}
		_, vals, err := compiler.New(params).Stream(gConn, gOT, name, strings.NewReader(src),
			[]string{gIn}, nil)
		gch <- out{vals, err}
	}()
	go func() {
		defer func() {
			if p := recover(); p != nil {
				ech <- out{nil, fmt.Errorf("panic: %v", p)}
			}
		}()
		_, vals, err := circuit.StreamEvaluator(eConn, eOT, []string{eIn}, nil, false)
		ech <- out{vals, err}
	}()
	var go_, eo out
	timeout := time.After(60 * time.Second)
	for got := 0; got < 2; {
		select {
		case go_ = <-gch:
			got++
			if go_.err != nil && grand.failed {
				// the garbler aborted on the failing entropy source: release the evaluator
				ga.Close()
				ea.Close()
			}
		case eo = <-ech:
			got++
		case <-timeout:
			ga.Close()
			ea.Close()
			c.Fail("c04:stream-session:stalled", "streaming session stalled", src)
			return nil
		}
	}
	ga.Close()
	ea.Close()
	if grand.failed && (go_.err != nil || eo.err != nil) {
		c.Hist("entropy-fault:garbler-aborted")
		return nil
	}
	if go_.err != nil || eo.err != nil {
		c.Fail("c04:stream-session:error", fmt.Sprintf("streaming session failed: %v / %v", go_.err, eo.err), src)
		return nil
	}
	g2e.mu.Lock()
	data := append([]byte(nil), g2e.log...)
	g2e.mu.Unlock()
	if grand.failed && grand.failAt == 1 {
		// the read of R failed and the session completed: ot.NewLabel returned the zero label
		grand.blocks = append([]ot.Label{{}}, grand.blocks...)
	}
	if len(grand.blocks) == 0 {
		c.Fail("c04:stream-session:no-R", "could not observe R (no 16-byte read from the configured random source)", src)
		return nil
	}
	R := setS(grand.blocks[0])
	self, pairs := scanR(data, R)
	if leaks := otLeaks(data, R, gOT.sent, eOT.recv); len(leaks) > 0 {
		c.Fail("c04:streaming:ot-handoff-leaks-second-label", "a wire offered through the OT also has a label in the clear transcript / a delivered label is R apart from transmitted data",
			c04Replay{Seed: c.Seed, Mode: "stream-session", Case: idx, R: R.String(), Detail: strings.Join(leaks, "; "), Program: src[:min(len(src), 300)], Inputs: fmt.Sprintf("%d bytes / %s", (len(gIn)-2)/2, eIn)})
	}
	if idx%5 == 4 {
		c.Hist("mode:stream-session:inputs-straddle-64K-wire-page")
	}
	c.Hist("mode:stream-session")
	c.Eval(fmt.Sprintf("stream-session|%d|%s|%s", idx%len(c04Programs), gIn[:min(len(gIn), 12)], eIn), true)
	c.Note("streaming session %d: %d transcript bytes scanned at every offset", idx, len(data))
	if len(self) > 0 || len(pairs) > 0 {
		if len(pairs) > 20 {
			pairs = pairs[:20]
		}
		c.Fail("c04:streaming:transcript-leaks-R", "the streaming garbler->evaluator transcript contains R or two 16-byte values differing by R",
			c04Replay{Seed: c.Seed, Mode: "stream-session", Case: idx, R: R.String(), Offsets: pairs, Self: self,
				Program: src[:min(len(src), 300)], Inputs: gIn[:min(len(gIn), 20)] + "/" + eIn})
	}
	_ = bytes.Equal
	return nil
}

func runC04(c *Ctx) error {
	for i := 0; i < c.N(300, 5000); i++ {
		if err := runWholeSlots(c, i); err != nil {
			return err
		}
	}
	for i := 0; i < c.N(24, 300); i++ {
		if err := runWholeSession(c, i); err != nil {
			return err
		}
	}
	for i := 0; i < c.N(7, 70); i++ {
		if err := runEntropyFaultSession(c, i); err != nil {
			return err
		}
	}
	for i := 0; i < c.N(3, 60); i++ {
		if err := runDeviatingQuery(c, i); err != nil {
			return err
		}
	}
	for i := 0; i < c.N(240, 3000); i++ {
		if err := runStreamAPI(c, i, i%3 == 0); err != nil {
			return err
		}
	}
	for i := 0; i < c.N(25, 200); i++ {
		if err := runStreamSession(c, i); err != nil {
			return err
		}
	}
	if err := runC04Long(c); err != nil {
		return err
	}
	if err := runC04Doors(c); err != nil {
		return err
	}
	sha2pcC04(c)
	return nil
}

// sha2pcC04 scans the Round3 payload of the SHA256(XOR) protocol (the garbler's
// only label-bearing message) at every byte offset.
func sha2pcC04(c *Ctx) {
	n := c.N(2, 12)
	curves := []elliptic.Curve{elliptic.P256(), elliptic.P224(), elliptic.P384(), elliptic.P521()}
	for i := 0; i < n; i++ {
		r := c.rng.Fork()
		var a, b [32]byte
		copy(a[:], r.Bytes(32))
		copy(b[:], r.Bytes(32))
		cv := curves[i%len(curves)]
		round3, R, hints, err := sha2pcTranscript(cv, a, b, r.U64())
		if err != nil {
			c.Fail("c04:sha2pc:protocol-error", "sha2pc protocol run failed: "+err.Error(), nil)
			continue
		}
		self, pairs := scanR(round3, R)
		c.Hist("mode:sha2pc-round3:" + cv.Params().Name)
		c.Eval(fmt.Sprintf("sha2pc|%s|%x|%x", cv.Params().Name, a, b), true)
		c.Note("sha2pc %s: Round3 payload of %d bytes scanned at every offset: %d windows equal R, %d pairs R apart (%d output hints)",
			cv.Params().Name, len(round3), len(self), len(pairs), len(hints))
		both := 0
		for _, h := range hints {
			x := h[0]
			x.Xor(h[1])
			if x.Equal(R) {
				both++
			}
		}
		if both > 0 || len(pairs) > 0 || len(self) > 0 {
			if len(pairs) > 8 {
				pairs = pairs[:8]
			}
			key := "c04:sha2pc:transcript-leaks-R"
			if both > 0 && both == len(pairs0(len(hints), len(self))) {
				key = "c04:sha2pc:output-hints-both-labels"
			}
			c.Fail(key, fmt.Sprintf("sha2pc Round3 payload carries both labels of %d output wires (OutputHints): their xor is R", both),
				c04Replay{Seed: c.Seed, Mode: "sha2pc:" + cv.Params().Name, Case: i, R: R.String(), Offsets: pairs, Self: self,
					Inputs: fmt.Sprintf("a=%x b=%x", a, b)})
		}
	}
}

// pairs0 exists to keep the key decision explicit: the OutputHints finding is
// keyed separately only when every R-apart pair is a hint pair and R itself is absent.
func pairs0(nhints, nself int) []struct{} {
	if nself > 0 {
		return nil
	}
	return make([]struct{}, nhints)
}
