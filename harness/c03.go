package main

// C03 — compiled circuit computes what the MPCL program means.
//
// (b) source level: programs generated from the Mini grammar are printed as
//     MPCL text and as a Mini term; the real compiler compiles the text, the
//     real circuit is evaluated with Circuit.Compute; the ORACLE compares with
//     the harness's own reference interpreter (c03gen.go); the CORRESPONDENCE
//     (cases.txt) has the Coq reference semantics exec_mini reproduce the
//     circuit outputs (mode 0) and, for programs the oracle reports, the
//     interpreter's expected values (mode 2).
// (a) SSA translation validation: every compilation dumps the SSA listing
//     (Params.SSAOut); the listing is parsed into the syntax of Lang/Ssa.v
//     and eval_ssa must reproduce the circuit outputs (mode 1).
// (c) every @Test vector under /repo/testsuite (oracle only).

import (
	"bytes"
	"fmt"
	"io/fs"
	"math/big"
	"os"
	"path/filepath"
	"reflect"
	"regexp"
	"runtime/debug"
	"sort"
	"strings"

	mpc "github.com/markkurossi/mpc"
	"github.com/markkurossi/mpc/circuit"
	"github.com/markkurossi/mpc/compiler"
	"github.com/markkurossi/mpc/compiler/circuits"
	"github.com/markkurossi/mpc/compiler/ssa"
	"github.com/markkurossi/mpc/compiler/utils"
	"github.com/markkurossi/mpc/types"
)

func init() { register("c03", runC03) }

// ------------------------------------------------------------ generator

type c03GV struct {
	v   *c03Var
	t   *c03Ty
	cst bool
}

type c03Gen struct {
	r       *RNG
	p       *c03Prog
	fn      *c03Func
	fnIdx   int
	scopes  [][]c03GV
	closed  []c03GV // names declared in scopes that are closed now (this function)
	pool    []*c03Ty
	arrs    []*c03Ty
	budget  int
	nameCtr int
	// construct switches
	allowScope     bool // shadowing / sibling-scope name reuse
	allowLitNarrow bool // literal operand of / % < <= > >= on intN, N < 32
	allowLitLeft   bool // literal LEFT operand of / % < <= > >= on uintN
	allowLoopDecl  bool // x := e (and calls, which declare with :=) in a loop body
	small          bool
	fewWide        bool // quick tier: widths above 64 are rarer (compile time)
	deadAlways     bool // every return is followed by dead code
}

func (g *c03Gen) newVar(name string) *c03Var {
	if v, ok := g.p.names[name]; ok {
		return v
	}
	v := &c03Var{id: len(g.p.names), name: name}
	g.p.names[name] = v
	return v
}

func (g *c03Gen) fresh() *c03Var {
	g.nameCtr++
	return g.newVar(fmt.Sprintf("v%d", g.nameCtr))
}

var c03BoundaryWidths = []int{1, 2, 3, 7, 8, 9, 15, 16, 17, 31, 32, 33, 63, 64, 65, 127, 128, 129, 130}

func (g *c03Gen) randWidth() int {
	if g.small {
		return g.r.Range(1, 5)
	}
	switch x := g.r.Intn(100); {
	case x < 40:
		return g.r.Range(1, 9)
	case x < 75:
		w := c03BoundaryWidths[g.r.Intn(len(c03BoundaryWidths))]
		if g.fewWide && w > 65 && g.r.Intn(3) != 0 {
			w = c03BoundaryWidths[g.r.Intn(13)]
		}
		return w
	}
	if g.fewWide {
		return g.r.Range(1, 66)
	}
	return g.r.Range(1, 130)
}

func (g *c03Gen) scalarTy(kind, w int) *c03Ty {
	for _, t := range g.pool {
		if t.kind == kind && (kind == 0 || t.w == w) {
			return t
		}
	}
	t := &c03Ty{kind: kind, w: w}
	if kind == 0 {
		t = c03Bool
	}
	if kind == 1 && w == 32 {
		t = c03Int32
	}
	g.pool = append(g.pool, t)
	return t
}

func (g *c03Gen) intTys() []*c03Ty {
	var l []*c03Ty
	for _, t := range g.pool {
		if t.kind == 1 || t.kind == 2 {
			l = append(l, t)
		}
	}
	return l
}

func (g *c03Gen) push() { g.scopes = append(g.scopes, nil) }
func (g *c03Gen) pop() {
	top := g.scopes[len(g.scopes)-1]
	g.closed = append(g.closed, top...)
	g.scopes = g.scopes[:len(g.scopes)-1]
}
func (g *c03Gen) declare(v *c03Var, t *c03Ty, cst bool) {
	g.scopes[len(g.scopes)-1] = append(g.scopes[len(g.scopes)-1], c03GV{v, t, cst})
}

// visible variables, innermost declaration of each name only
func (g *c03Gen) visible() []c03GV {
	seen := map[int]bool{}
	var l []c03GV
	for i := len(g.scopes) - 1; i >= 0; i-- {
		sc := g.scopes[i]
		for j := len(sc) - 1; j >= 0; j-- {
			if !seen[sc[j].v.id] {
				seen[sc[j].v.id] = true
				l = append(l, sc[j])
			}
		}
	}
	return l
}

func (g *c03Gen) varsOf(pred func(c03GV) bool) []c03GV {
	var l []c03GV
	for _, gv := range g.visible() {
		if pred(gv) {
			l = append(l, gv)
		}
	}
	return l
}

func (g *c03Gen) pickLit(t *c03Ty) *big.Int {
	maxBits := t.w
	if t.kind == 1 {
		maxBits = t.w - 1
	}
	if t.kind == 0 {
		return big.NewInt(int64(g.r.Intn(2)))
	}
	// literals at the boundaries of the compiler's 32/64-bit constant
	// containers and beyond 64 bits (for types that can hold them)
	if maxBits >= 34 && g.r.Intn(4) == 0 {
		if ws := c03WideLits(maxBits); len(ws) > 0 {
			return ws[g.r.Intn(len(ws))]
		}
	}
	if maxBits > 15 {
		maxBits = 15
	}
	if maxBits <= 0 {
		return big.NewInt(0)
	}
	max := int64(1)<<uint(maxBits) - 1
	cands := []int64{0, 1, 2, 3, 5, 7, 10, 13, 100, 255, 1000, max, max - 1, max / 2}
	v := cands[g.r.Intn(len(cands))]
	if v > max {
		v = max
	}
	if v < 0 {
		v = 0
	}
	return big.NewInt(v)
}

// c03WideLits: 2^31, 2^32, 2^32+1, 2^63, 2^64, 2^64+1, 2^64+8, 2^65, 3*2^64, 2^64+3 that fit maxBits bits.
func c03WideLits(maxBits int) []*big.Int {
	var out []*big.Int
	p := func(k uint, add int64) *big.Int {
		v := new(big.Int).Lsh(big.NewInt(1), k)
		return v.Add(v, big.NewInt(add))
	}
	for _, v := range []*big.Int{p(31, 0), p(32, 0), p(32, 1), p(63, 0), p(64, 0), p(64, 1), p(64, 8), p(65, 0),
		new(big.Int).Mul(big.NewInt(3), p(64, 0)), p(64, 3)} {
		if v.BitLen() <= maxBits {
			out = append(out, v)
		}
	}
	return out
}

// c03WideLitFamily: + - * of a run-time value with every boundary literal, on
// types wider than 64 bits (every run, fixed).
func c03WideLitFamily() []*c03Prog {
	var out []*c03Prog
	for _, k := range []struct{ kind, w int }{{2, 65}, {2, 100}, {1, 72}} {
		g := &c03Gen{r: NewRNG(uint64(0x71DE + k.w)), small: true}
		g.p = &c03Prog{names: map[string]*c03Var{}, class: "widelitfamily"}
		g.pool = []*c03Ty{c03Bool}
		t := g.scalarTy(k.kind, k.w)
		maxBits := k.w
		if k.kind == 1 {
			maxBits--
		}
		f := &c03Func{name: "main"}
		a, b := g.newVar("a"), g.newVar("b")
		f.params, f.ptys = []*c03Var{a, b}, []*c03Ty{t, t}
		ev := func(v *c03Var) *c03Expr { return &c03Expr{tag: c03EVar, v: v} }
		var rets []*c03Expr
		for i, l := range c03WideLits(maxBits) {
			if l.BitLen() < 64 {
				continue
			}
			lit := &c03Expr{tag: c03ELit, t: t, n: l}
			op := []int{c03Mul, c03Add, c03Sub}[i%3]
			e := &c03Expr{tag: c03EBin, op: op, t: t, a: ev(a), b: lit}
			if i%2 == 1 && op != c03Sub {
				e = &c03Expr{tag: c03EBin, op: op, t: t, a: lit, b: ev(b)}
			}
			rets = append(rets, e)
			if op != c03Mul {
				rets = append(rets, &c03Expr{tag: c03EBin, op: c03Mul, t: t, a: ev(b), b: &c03Expr{tag: c03ELit, t: t, n: l}})
			}
		}
		for range rets {
			f.rets = append(f.rets, t)
		}
		f.body = []*c03Stmt{{tag: c03SReturn, es: rets}}
		g.p.funcs = []*c03Func{f}
		out = append(out, g.p)
	}
	return out
}

// c03LitOpFamily: every binary operator with a small literal operand (its
// wires are a 32-bit container) on types WIDER than the container, run-time
// operand with high bits set among the boundary inputs (every run, fixed).
func c03LitOpFamily() []*c03Prog {
	var out []*c03Prog
	for _, k := range []struct{ kind, w int }{{2, 40}, {1, 64}, {2, 64}, {2, 72}} {
		g := &c03Gen{r: NewRNG(uint64(0x117 + k.w)), small: true}
		g.p = &c03Prog{names: map[string]*c03Var{}, class: "litopfamily"}
		g.pool = []*c03Ty{c03Bool}
		t := g.scalarTy(k.kind, k.w)
		f := &c03Func{name: "main"}
		a, b := g.newVar("a"), g.newVar("b")
		f.params, f.ptys = []*c03Var{a, b}, []*c03Ty{t, t}
		ev := func(v *c03Var) *c03Expr { return &c03Expr{tag: c03EVar, v: v} }
		lits := []int64{255, 5, 1, 4096}
		var rets []*c03Expr
		for op := c03Add; op <= c03Ne; op++ {
			l := &c03Expr{tag: c03ELit, t: t, n: big.NewInt(lits[op%len(lits)])}
			rets = append(rets, &c03Expr{tag: c03EBin, op: op, t: t, a: ev(a), b: l})
			if g.litAllowed(op, t, true) {
				l2 := &c03Expr{tag: c03ELit, t: t, n: big.NewInt(lits[(op+1)%len(lits)])}
				rets = append(rets, &c03Expr{tag: c03EBin, op: op, t: t, a: l2, b: ev(b)})
			}
		}
		for _, e := range rets {
			if c03IsCmp(e.op) {
				f.rets = append(f.rets, c03Bool)
			} else {
				f.rets = append(f.rets, t)
			}
		}
		f.body = []*c03Stmt{{tag: c03SReturn, es: rets}}
		g.p.funcs = []*c03Func{f}
		out = append(out, g.p)
	}
	return out
}

func (g *c03Gen) lit(t *c03Ty) *c03Expr { return &c03Expr{tag: c03ELit, t: t, n: g.pickLit(t)} }

// constant operand: a literal, or T(i) for a visible loop variable i
func (g *c03Gen) constOperand(t *c03Ty) *c03Expr {
	lv := g.varsOf(func(gv c03GV) bool { return gv.cst })
	fits := (t.kind == 1 && t.w >= 5) || (t.kind == 2 && t.w >= 4)
	if len(lv) > 0 && fits && g.r.Intn(3) == 0 {
		i := lv[g.r.Intn(len(lv))]
		ev := &c03Expr{tag: c03EVar, v: i.v, isLoopVar: true}
		if t.kind == 1 && t.w == 32 {
			return ev
		}
		return &c03Expr{tag: c03ECast, t: c03Int32, to: t, a: ev}
	}
	return g.lit(t)
}

// leaf of scalar type t (always a run-time value)
func (g *c03Gen) leaf(t *c03Ty) *c03Expr {
	vs := g.varsOf(func(gv c03GV) bool { return !gv.cst && gv.t.equal(t) })
	if len(vs) > 0 && g.r.Intn(8) != 0 {
		return &c03Expr{tag: c03EVar, v: vs[g.r.Intn(len(vs))].v}
	}
	// element of a composite
	comps := g.varsOf(func(gv c03GV) bool {
		if gv.t.kind == 3 {
			return gv.t.elem.equal(t)
		}
		if gv.t.kind == 4 {
			for _, f := range gv.t.fields {
				if f.equal(t) {
					return true
				}
			}
		}
		return false
	})
	if len(comps) > 0 && g.r.Intn(2) == 0 {
		cv := comps[g.r.Intn(len(comps))]
		base := &c03Expr{tag: c03EVar, v: cv.v}
		if cv.t.kind == 3 {
			return &c03Expr{tag: c03ESlice, at: cv.t, t: t, a: base, k: g.r.Intn(cv.t.n)}
		}
		var ks []int
		for k, f := range cv.t.fields {
			if f.equal(t) {
				ks = append(ks, k)
			}
		}
		return &c03Expr{tag: c03ESlice, at: cv.t, t: t, a: base, k: ks[g.r.Intn(len(ks))]}
	}
	if len(vs) > 0 {
		return &c03Expr{tag: c03EVar, v: vs[g.r.Intn(len(vs))].v}
	}
	if t.kind == 0 {
		// comparison of integer run-time values
		its := g.intVars()
		x := its[g.r.Intn(len(its))]
		y := its[g.r.Intn(len(its))]
		if y.t.equal(x.t) {
			return &c03Expr{tag: c03EBin, op: c03Eq + g.r.Intn(2), t: x.t,
				a: &c03Expr{tag: c03EVar, v: x.v}, b: &c03Expr{tag: c03EVar, v: y.v}}
		}
		return &c03Expr{tag: c03EBin, op: c03Ne, t: x.t, a: &c03Expr{tag: c03EVar, v: x.v}, b: g.lit(x.t)}
	}
	// cast from another integer variable
	its := g.intVars()
	var ok []c03GV
	for _, x := range its {
		if g.castAllowed(x.t, t) {
			ok = append(ok, x)
		}
	}
	if len(ok) == 0 {
		// int -> wider uint is outside the core: go through the unsigned type of the same width
		x := its[g.r.Intn(len(its))]
		mid := g.scalarTy(2, x.t.w)
		return &c03Expr{tag: c03ECast, t: mid, to: t,
			a: &c03Expr{tag: c03ECast, t: x.t, to: mid, a: &c03Expr{tag: c03EVar, v: x.v}}}
	}
	x := ok[g.r.Intn(len(ok))]
	return &c03Expr{tag: c03ECast, t: x.t, to: t, a: &c03Expr{tag: c03EVar, v: x.v}}
}

func (g *c03Gen) intVars() []c03GV {
	return g.varsOf(func(gv c03GV) bool { return !gv.cst && (gv.t.kind == 1 || gv.t.kind == 2) })
}

func (g *c03Gen) castAllowed(from, to *c03Ty) bool {
	if from.equal(to) {
		return false
	}
	return true
}

func (g *c03Gen) litAllowed(op int, t *c03Ty, left bool) bool {
	if !c03Sensitive(op) {
		return true
	}
	if t.kind == 1 && t.w < 32 {
		return g.allowLitNarrow
	}
	if t.kind == 2 && left {
		return g.allowLitLeft
	}
	return true
}

var c03ArithOps = []int{c03Add, c03Sub, c03Mul, c03Div, c03Mod, c03BAnd, c03BOr, c03BXor, c03BAndNot,
	c03Add, c03Sub, c03Mul, c03BXor}

func (g *c03Gen) expr(t *c03Ty, depth int) *c03Expr {
	if depth <= 0 || g.r.Intn(5) == 0 {
		return g.leaf(t)
	}
	if t.kind == 0 {
		switch x := g.r.Intn(10); {
		case x < 6: // comparison
			its := g.intTys()
			u := its[g.r.Intn(len(its))]
			op := c03Lt + g.r.Intn(6)
			a := g.expr(u, depth-1)
			switch k := g.r.Intn(6); {
			case k == 0 && g.litAllowed(op, u, false):
				return &c03Expr{tag: c03EBin, op: op, t: u, a: a, b: g.constOperand(u)}
			case k == 1 && g.litAllowed(op, u, true):
				return &c03Expr{tag: c03EBin, op: op, t: u, a: g.constOperand(u), b: a}
			}
			return &c03Expr{tag: c03EBin, op: op, t: u, a: a, b: g.expr(u, depth-1)}
		case x < 8:
			return &c03Expr{tag: c03EBin, op: c03LAnd + g.r.Intn(2), t: c03Bool, a: g.expr(t, depth-1), b: g.expr(t, depth-1)}
		case x < 9:
			return &c03Expr{tag: c03ENot, a: g.expr(t, depth-1)}
		}
		return &c03Expr{tag: c03EBin, op: c03Eq + g.r.Intn(2), t: c03Bool, a: g.expr(t, depth-1), b: g.expr(t, depth-1)}
	}
	switch x := g.r.Intn(20); {
	case x < 11:
		op := c03ArithOps[g.r.Intn(len(c03ArithOps))]
		a := g.expr(t, depth-1)
		switch k := g.r.Intn(6); {
		case k == 0 && g.litAllowed(op, t, false):
			return &c03Expr{tag: c03EBin, op: op, t: t, a: a, b: g.constOperand(t)}
		case k == 1 && g.litAllowed(op, t, true):
			return &c03Expr{tag: c03EBin, op: op, t: t, a: g.constOperand(t), b: a}
		}
		return &c03Expr{tag: c03EBin, op: op, t: t, a: a, b: g.expr(t, depth-1)}
	case x < 12:
		return &c03Expr{tag: c03ENeg, t: t, a: g.expr(t, depth-1)}
	case x < 15:
		ks := []int{0, 1, 2, t.w - 1, t.w, t.w + 1, g.r.Intn(t.w + 1)}
		k := ks[g.r.Intn(len(ks))]
		if k < 0 {
			k = 0
		}
		tag := c03EShl
		if g.r.Bool() {
			tag = c03EShr
		}
		return &c03Expr{tag: tag, t: t, a: g.expr(t, depth-1), k: k}
	case x < 18:
		its := g.intTys()
		var ok []*c03Ty
		for _, u := range its {
			if g.castAllowed(u, t) {
				ok = append(ok, u)
			}
		}
		if len(ok) == 0 {
			return g.leaf(t)
		}
		u := ok[g.r.Intn(len(ok))]
		return &c03Expr{tag: c03ECast, t: u, to: t, a: g.expr(u, depth-1)}
	default:
		// run-time index into an array of t
		arrs := g.varsOf(func(gv c03GV) bool { return gv.t.kind == 3 && gv.t.elem.equal(t) })
		if len(arrs) == 0 {
			return g.leaf(t)
		}
		av := arrs[g.r.Intn(len(arrs))]
		var idx *c03Expr
		lv := g.varsOf(func(gv c03GV) bool { return gv.cst })
		if len(lv) > 0 && g.r.Bool() {
			// loop variable as index; bounded by the loop, may exceed the array: skip unless in range
			idx = nil
		}
		if idx == nil {
			var uts []*c03Ty
			for _, u := range g.intTys() {
				if u.kind == 2 {
					uts = append(uts, u)
				}
			}
			if len(uts) == 0 {
				return g.leaf(t)
			}
			idx = g.expr(uts[g.r.Intn(len(uts))], depth-1)
		}
		return &c03Expr{tag: c03EIndex, at: av.t, t: t, a: &c03Expr{tag: c03EVar, v: av.v}, b: idx}
	}
}

func (g *c03Gen) poolScalar() *c03Ty {
	return g.pool[g.r.Intn(len(g.pool))]
}

// declName picks the name of a new variable.
func (g *c03Gen) declName() (*c03Var, *c03Ty) {
	if g.allowScope && g.r.Intn(3) == 0 {
		cur := map[int]bool{}
		for _, gv := range g.scopes[len(g.scopes)-1] {
			cur[gv.v.id] = true
		}
		var cands []c03GV
		if len(g.scopes) > 1 { // shadow an outer variable (same type: the outer one stays usable by type)
			for _, gv := range g.visible() {
				if !cur[gv.v.id] && !gv.cst && gv.t.scalar() {
					cands = append(cands, gv)
				}
			}
		}
		vis := map[int]bool{}
		for _, gv := range g.visible() {
			vis[gv.v.id] = true
		}
		for _, gv := range g.closed { // name of a sibling scope
			if !cur[gv.v.id] && !gv.cst && !vis[gv.v.id] {
				cands = append(cands, c03GV{gv.v, nil, false})
			}
		}
		if len(cands) > 0 {
			c := cands[g.r.Intn(len(cands))]
			return c.v, c.t
		}
	}
	return g.fresh(), nil
}

// block generates statements into a new scope; mayReturn: an early return
// may be generated; returns the block and whether every path returns.
func (g *c03Gen) block(n, depth int, mayReturn, inLoop bool) ([]*c03Stmt, bool) {
	g.push()
	defer g.pop()
	return g.stmts(n, depth, mayReturn, inLoop)
}

func (g *c03Gen) retStmt() *c03Stmt {
	s := &c03Stmt{tag: c03SReturn}
	for _, rt := range g.fn.rets {
		s.es = append(s.es, g.expr(rt, 2))
	}
	// dead tail: statements after the return in the same block (assignments to
	// visible variables, another return with other values).  Unreachable in
	// the reference semantics whatever the compiler options are.
	if g.deadAlways || g.r.Intn(4) == 0 {
		vs := g.varsOf(func(gv c03GV) bool { return !gv.cst && gv.t.scalar() })
		for k := g.r.Range(0, 2); k > 0 && len(vs) > 0; k-- {
			gv := vs[g.r.Intn(len(vs))]
			s.dead = append(s.dead, &c03Stmt{tag: c03SAssign, v: gv.v, t: gv.t, e: g.expr(gv.t, 2)})
		}
		if len(s.dead) == 0 || g.r.Bool() {
			r2 := &c03Stmt{tag: c03SReturn}
			for _, rt := range g.fn.rets {
				r2.es = append(r2.es, g.expr(rt, 2))
			}
			s.dead = append(s.dead, r2)
		}
	}
	return s
}

func (g *c03Gen) stmts(n, depth int, mayReturn, inLoop bool) ([]*c03Stmt, bool) {
	var out []*c03Stmt
	for i := 0; i < n && g.budget > 0; i++ {
		g.budget--
		switch x := g.r.Intn(100); {
		case x < 25: // declaration
			t := g.poolScalar()
			v, ft := g.declName()
			if ft != nil {
				t = ft
			}
			s := &c03Stmt{tag: c03SDecl, v: v, t: t, e: g.expr(t, 3), short: g.r.Bool()}
			if inLoop && !g.allowLoopDecl {
				s.short = false
			}
			out = append(out, s)
			g.declare(v, t, false)
		case x < 45: // assignment
			vs := g.varsOf(func(gv c03GV) bool { return !gv.cst && gv.t.scalar() })
			gv := vs[g.r.Intn(len(vs))]
			out = append(out, &c03Stmt{tag: c03SAssign, v: gv.v, t: gv.t, e: g.updateExpr(gv)})
		case x >= 60 && x < 65 && depth > 1: // nested conditional assignments of one variable in both arms
			vs := g.varsOf(func(gv c03GV) bool { return !gv.cst && gv.t.scalar() })
			gv := vs[g.r.Intn(len(vs))]
			out = append(out, g.nestedMerge(gv, g.r.Range(2, 3), g.r.Bool(), g.r.Bool(), g.r.Intn(3) == 0))
		case x < 65 && depth > 0: // if
			s := &c03Stmt{tag: c03SIf, c: g.expr(c03Bool, 2)}
			var da, db bool
			s.a, da = g.block(g.r.Range(1, 3), depth-1, mayReturn, inLoop)
			if mayReturn && !da && g.r.Intn(3) == 0 {
				g.push()
				s.a = append(s.a, g.retStmtIn(s.a))
				g.pop()
				da = true
			}
			if g.r.Bool() {
				s.hasEls = true
				s.b, db = g.block(g.r.Range(1, 3), depth-1, mayReturn, inLoop)
				if mayReturn && !db && !(inLoop && da) && g.r.Intn(4) == 0 {
					s.b = append(s.b, g.retStmtIn(s.b))
					db = true
				}
			}
			out = append(out, s)
			if da && db && s.hasEls {
				return out, true
			}
		case x < 75 && depth > 0: // for
			i := g.fresh()
			s := &c03Stmt{tag: c03SFor, v: i, lo: g.r.Intn(3), cnt: g.r.Intn(4)}
			if g.r.Intn(8) == 0 {
				s.cnt = 0
			}
			g.push()
			g.declare(i, c03Int32, true)
			body, dead := g.block(g.r.Range(1, 3), depth-1, mayReturn, true)
			g.pop()
			if dead {
				// never generated: a body whose every path returns
				body = body[:len(body)-1]
				if len(body) == 0 {
					continue
				}
			}
			s.a = body
			out = append(out, s)
		case x < 83 && len(g.arrs) > 0: // composite: declare and fill
			t := g.arrs[g.r.Intn(len(g.arrs))]
			v := g.fresh()
			out = append(out, &c03Stmt{tag: c03SDeclZero, v: v, t: t})
			g.declare(v, t, false)
			cnt := 1
			var n int
			if t.kind == 3 {
				n = t.n
			} else {
				n = len(t.fields)
			}
			cnt = g.r.Range(1, n)
			for j := 0; j < cnt; j++ {
				k := g.r.Intn(n)
				if j == 0 {
					k = g.r.Intn(n)
				}
				var et *c03Ty
				if t.kind == 3 {
					et = t.elem
				} else {
					et = t.fields[k]
				}
				out = append(out, &c03Stmt{tag: c03SStore, v: v, t: t, k: k, e: g.storeValue(et, j == 0)})
			}
		case x < 88: // store into a visible composite
			cs := g.varsOf(func(gv c03GV) bool { return gv.t.kind >= 3 })
			if len(cs) == 0 {
				continue
			}
			cv := cs[g.r.Intn(len(cs))]
			var k int
			var et *c03Ty
			if cv.t.kind == 3 {
				k = g.r.Intn(cv.t.n)
				et = cv.t.elem
			} else {
				k = g.r.Intn(len(cv.t.fields))
				et = cv.t.fields[k]
			}
			if cv.t.kind == 3 && g.r.Intn(4) == 0 {
				// partial copy from another visible array of the same element type
				srcs := g.varsOf(func(gv c03GV) bool {
					return gv.t.kind == 3 && gv.v.id != cv.v.id && gv.t.elem.equal(cv.t.elem)
				})
				if len(srcs) > 0 {
					sv := srcs[g.r.Intn(len(srcs))]
					// copy(d[0:k], s) with k < len(d) is rejected by the compiler
					// (Copy.SSA treats dstFrom == 0 as "src overwrites dst fully":
					// notes/C03-findings.md, C03-F5); generated from index 1 on
					lo := g.r.Range(1, cv.t.n-1)
					hi := g.r.Range(lo+1, cv.t.n)
					out = append(out, &c03Stmt{tag: c03SCopy, v: cv.v, t: cv.t, sv: sv.v, st: sv.t, lo: lo, hi: hi})
					continue
				}
			}
			out = append(out, &c03Stmt{tag: c03SStore, v: cv.v, t: cv.t, k: k, e: g.storeValue(et, false)})
		case x < 96 && g.fnIdx > 0 && (!inLoop || g.allowLoopDecl): // call of an earlier function
			f := g.r.Intn(g.fnIdx)
			callee := g.p.funcs[f]
			s := &c03Stmt{tag: c03SCall, f: f}
			for _, pt := range callee.ptys {
				s.es = append(s.es, g.expr(pt, 2))
			}
			for _, rt := range callee.rets {
				v := g.fresh()
				s.xs = append(s.xs, v)
				s.xts = append(s.xts, rt)
			}
			out = append(out, s)
			for k, v := range s.xs {
				g.declare(v, s.xts[k], false)
			}
		default:
			vs := g.varsOf(func(gv c03GV) bool { return !gv.cst && gv.t.scalar() })
			gv := vs[g.r.Intn(len(vs))]
			out = append(out, &c03Stmt{tag: c03SAssign, v: gv.v, t: gv.t, e: g.expr(gv.t, 2)})
		}
	}
	return out, false
}

// updateExpr: the right-hand side of x = ...; a third of the assignments are
// updates x = x op e (every operator that has a compound form op=, x++ and
// x-- included), which the compound style spells x op= e.
func (g *c03Gen) updateExpr(x c03GV) *c03Expr {
	if x.t.kind == 0 || g.r.Intn(3) != 0 {
		return g.expr(x.t, 3)
	}
	xv := &c03Expr{tag: c03EVar, v: x.v}
	switch k := g.r.Intn(11); {
	case k < 7:
		op := []int{c03Add, c03Sub, c03Mul, c03Div, c03BAnd, c03BOr, c03BXor}[k]
		if g.r.Intn(4) == 0 && g.litAllowed(op, x.t, false) {
			if (op == c03Add || op == c03Sub) && g.r.Bool() && c03LitFits(x.t, big.NewInt(1)) {
				return &c03Expr{tag: c03EBin, op: op, t: x.t, a: xv, b: &c03Expr{tag: c03ELit, t: x.t, n: big.NewInt(1)}}
			}
			return &c03Expr{tag: c03EBin, op: op, t: x.t, a: xv, b: g.constOperand(x.t)}
		}
		return &c03Expr{tag: c03EBin, op: op, t: x.t, a: xv, b: g.expr(x.t, 2)}
	case k < 9:
		return &c03Expr{tag: c03EShl, t: x.t, a: xv, k: g.r.Intn(x.t.w + 1)}
	}
	return &c03Expr{tag: c03EShr, t: x.t, a: xv, k: g.r.Intn(x.t.w + 1)}
}

// storeValue: the value of an element / field store: a run-time expression or
// (a third of the stores, never the first store into a fresh composite) a
// literal / T(loop counter), which the compiler keeps in a 32/64-bit container
// wider than a narrow slot.
func (g *c03Gen) storeValue(et *c03Ty, first bool) *c03Expr {
	if !first && g.r.Intn(3) == 0 {
		return g.constOperand(et)
	}
	return g.expr(et, 2)
}

// nestedMerge builds
//
//	if C1 { ARM } else { ARM }            or  if C1 { ARM } else if C2 { ARM } else { ARM }
//
// where every ARM assigns x only under a nested condition:
//
//	depth 2:  if D { x = E } [else { x = F }]
//	depth 3:  if D { if D2 { x = E } [else { x = F }] } [else { x = G }]
//
// and, with laterRead, reads x afterwards inside the arm (y = y ^ x for another
// variable y of x's type, if there is one).  Without laterRead nothing in the
// arm touches x after the inner if, so the binding of x that reaches the
// merge of the outer if is the still unresolved select of the inner merge.
func (g *c03Gen) nestedMerge(x c03GV, depth int, innerElse, laterRead, chain bool) *c03Stmt {
	assign := func() *c03Stmt { return &c03Stmt{tag: c03SAssign, v: x.v, t: x.t, e: g.expr(x.t, 1)} }
	var inner func(d int) *c03Stmt
	inner = func(d int) *c03Stmt {
		s := &c03Stmt{tag: c03SIf, c: g.expr(c03Bool, 1)}
		if d <= 2 {
			s.a = []*c03Stmt{assign()}
		} else {
			s.a = []*c03Stmt{inner(d - 1)}
		}
		if innerElse {
			s.hasEls = true
			s.b = []*c03Stmt{assign()}
		}
		return s
	}
	arm := func() []*c03Stmt {
		b := []*c03Stmt{inner(depth)}
		if laterRead {
			ys := g.varsOf(func(gv c03GV) bool { return !gv.cst && gv.t.equal(x.t) && gv.v.id != x.v.id })
			if len(ys) > 0 {
				y := ys[g.r.Intn(len(ys))]
				op := c03BXor
				if y.t.kind == 0 {
					op = c03Ne // xor of booleans
				}
				b = append(b, &c03Stmt{tag: c03SAssign, v: y.v, t: y.t, e: &c03Expr{tag: c03EBin, op: op, t: y.t,
					a: &c03Expr{tag: c03EVar, v: y.v}, b: &c03Expr{tag: c03EVar, v: x.v}}})
			}
		}
		return b
	}
	s := &c03Stmt{tag: c03SIf, c: g.expr(c03Bool, 1), hasEls: true}
	s.a = arm()
	if chain {
		e2 := &c03Stmt{tag: c03SIf, c: g.expr(c03Bool, 1), hasEls: true}
		e2.a = arm()
		e2.b = arm()
		s.b = []*c03Stmt{e2}
		s.elseIf = true
	} else {
		s.b = arm()
	}
	return s
}

// c03MergeFamily: the family "both arms of an if/else assign the same variable
// under a nested condition", enumerated systematically (depth 2 and 3, inner
// if with and without else, with and without a later read in the arm, if/else
// and else-if chain) over two small types so that ALL inputs are run.  The
// family is the same in every run: its random choices (conditions, assigned
// expressions) come from a fixed seed, not from VERIF_SEED; `round` varies
// them in the thorough tier.
func c03MergeFamily(round int) []*c03Prog {
	var out []*c03Prog
	n := 0
	for _, depth := range []int{2, 3} {
		for _, innerElse := range []bool{false, true} {
			for _, laterRead := range []bool{false, true} {
				for _, chain := range []bool{false, true} {
					n++
					r := NewRNG(uint64(0xC03C03 + 1000*round + n))
					g := &c03Gen{r: r, small: true}
					g.p = &c03Prog{names: map[string]*c03Var{}, class: "mergefamily"}
					g.pool = []*c03Ty{c03Bool}
					kind, w := 2, 3+(round%2)*(n%2) // uint3 (thorough: also uint4)
					if (n/2)%2 == 1 {
						kind = 1 // int3 (int4): literals only with == != (generator rule)
					}
					t := g.scalarTy(kind, w)
					f := &c03Func{name: "main"}
					g.fn, g.fnIdx = f, 0
					g.push()
					for i := 0; i < 3; i++ {
						v := g.newVar(string(rune('a' + i)))
						f.params = append(f.params, v)
						f.ptys = append(f.ptys, t)
						g.declare(v, t, false)
					}
					f.rets = []*c03Ty{t, t}
					x, y := g.newVar("x"), g.newVar("y")
					f.body = append(f.body,
						&c03Stmt{tag: c03SDecl, v: x, t: t, e: &c03Expr{tag: c03EVar, v: f.params[0]}, short: n%2 == 0},
						&c03Stmt{tag: c03SDecl, v: y, t: t, e: &c03Expr{tag: c03EVar, v: f.params[1]}})
					g.declare(x, t, false)
					g.declare(y, t, false)
					f.body = append(f.body, g.nestedMerge(c03GV{x, t, false}, depth, innerElse, laterRead, chain))
					f.body = append(f.body, &c03Stmt{tag: c03SReturn, es: []*c03Expr{
						{tag: c03EVar, v: x}, {tag: c03EVar, v: y}}})
					g.p.funcs = []*c03Func{f}
					out = append(out, g.p)
				}
			}
		}
	}
	return out
}

// c03StoreFamily: element / field stores whose value has more wires than the
// slot (a literal lives in a 32/64-bit container; copy() hands the whole
// source array to amov), into slots that are NOT the last one, with live
// run-time data in the neighbouring slots that is read back afterwards.
// Enumerated over narrow element types; the same programs in every run.
func c03StoreFamily(round int) []*c03Prog {
	var out []*c03Prog
	type tk struct{ kind, w int }
	tys := []tk{{1, 8}, {2, 8}, {1, 16}, {0, 1}, {1, 3}, {2, 5}, {1, 31}}
	if round > 0 {
		tys = []tk{{1, 7}, {2, 9}, {1, 24}, {2, 1}, {1, 2}, {2, 12}, {1, 33}, {2, 40}}
	}
	n := 0
	for _, k := range tys {
		for tmpl := 0; tmpl < 4; tmpl++ {
			n++
			r := NewRNG(uint64(0x5707E + 1000*round + n))
			g := &c03Gen{r: r, small: true}
			g.p = &c03Prog{names: map[string]*c03Var{}, class: "storefamily"}
			g.pool = []*c03Ty{c03Bool}
			t := g.scalarTy(k.kind, k.w)
			f := &c03Func{name: "main"}
			x, y := g.newVar("a"), g.newVar("b")
			f.params, f.ptys = []*c03Var{x, y}, []*c03Ty{t, t}
			ev := func(v *c03Var) *c03Expr { return &c03Expr{tag: c03EVar, v: v} }
			mix := func() *c03Expr { // a third run-time value of type t
				if t.kind == 0 {
					return &c03Expr{tag: c03EBin, op: c03Ne, t: t, a: ev(x), b: ev(y)}
				}
				return &c03Expr{tag: c03EBin, op: c03BXor, t: t, a: ev(x), b: ev(y)}
			}
			lit := func() *c03Expr {
				for i := 0; i < 8; i++ {
					if l := g.lit(t); l.n.Sign() != 0 {
						return l
					}
				}
				return g.lit(t)
			}
			arr := &c03Ty{kind: 3, n: 4, elem: t}
			st := func(v *c03Var, ct *c03Ty, k int, e *c03Expr) *c03Stmt {
				return &c03Stmt{tag: c03SStore, v: v, t: ct, k: k, e: e}
			}
			el := func(v *c03Var, ct *c03Ty, k int) *c03Expr {
				rt := t
				if ct.kind == 4 {
					rt = ct.fields[k]
				}
				return &c03Expr{tag: c03ESlice, at: ct, t: rt, a: ev(v), k: k}
			}
			var body []*c03Stmt
			var rets []*c03Expr
			switch tmpl {
			case 0: // literal into the first slot, neighbours live
				v := g.newVar("v")
				body = []*c03Stmt{{tag: c03SDeclZero, v: v, t: arr},
					st(v, arr, 1, ev(x)), st(v, arr, 2, ev(y)), st(v, arr, 3, mix()), st(v, arr, 0, lit())}
				for k := 0; k < 4; k++ {
					rets = append(rets, el(v, arr, k))
				}
			case 1: // out of order, literal into a middle slot that was written before
				v := g.newVar("v")
				body = []*c03Stmt{{tag: c03SDeclZero, v: v, t: arr},
					st(v, arr, 3, ev(x)), st(v, arr, 2, ev(y)), st(v, arr, 0, mix()), st(v, arr, 2, lit()),
					st(v, arr, 1, lit())}
				for k := 0; k < 4; k++ {
					rets = append(rets, el(v, arr, k))
				}
			case 2: // struct: literal into the first field after the others were set
				wide := g.scalarTy(2, 40)
				sty := &c03Ty{kind: 4, name: "S0", fields: []*c03Ty{t, t, wide}}
				g.p.structs = []*c03Ty{sty}
				v := g.newVar("v")
				var wideVal *c03Expr
				if t.kind == 0 {
					wideVal = &c03Expr{tag: c03ELit, t: wide, n: big.NewInt(1000)}
				} else {
					wideVal = &c03Expr{tag: c03ECast, t: t, to: wide, a: ev(x)}
				}
				body = []*c03Stmt{{tag: c03SDeclZero, v: v, t: sty},
					st(v, sty, 1, ev(y)), st(v, sty, 2, wideVal), st(v, sty, 0, lit())}
				if round%2 == 1 {
					body = append(body, st(v, sty, 1, lit()))
				}
				for k := 0; k < 3; k++ {
					rets = append(rets, el(v, sty, k))
				}
			case 3: // partial copy: the source is longer than the destination range
				src := &c03Ty{kind: 3, n: 3, elem: t}
				sv, dv := g.newVar("s"), g.newVar("d")
				lo := 1 + round%2
				body = []*c03Stmt{{tag: c03SDeclZero, v: sv, t: src},
					st(sv, src, 0, ev(x)), st(sv, src, 1, ev(y)), st(sv, src, 2, mix()),
					{tag: c03SDeclZero, v: dv, t: arr},
					st(dv, arr, 3, ev(y)), st(dv, arr, 2, ev(x)),
					{tag: c03SCopy, v: dv, t: arr, sv: sv, st: src, lo: lo, hi: lo + 2}}
				for k := 0; k < 4; k++ {
					rets = append(rets, el(dv, arr, k))
				}
			}
			for _, e := range rets {
				f.rets = append(f.rets, e.t)
			}
			f.body = append(body, &c03Stmt{tag: c03SReturn, es: rets})
			g.p.funcs = []*c03Func{f}
			out = append(out, g.p)
		}
	}
	return out
}

// retStmtIn generates a return whose expressions see the declarations of blk
// (blk's scope has been closed already: re-open it for the expressions).
func (g *c03Gen) retStmtIn(blk []*c03Stmt) *c03Stmt {
	g.push()
	var reopen func(b []*c03Stmt)
	reopen = func(b []*c03Stmt) {
		for _, s := range b {
			switch s.tag {
			case c03SDecl, c03SDeclZero:
				g.declare(s.v, s.t, false)
			case c03SCall:
				for k, v := range s.xs {
					g.declare(v, s.xts[k], false)
				}
			}
		}
	}
	reopen(blk)
	s := g.retStmt()
	// do not record these declarations a second time as closed names
	g.scopes = g.scopes[:len(g.scopes)-1]
	return s
}

func (g *c03Gen) genFunc(name string, idx int, nparams, nrets, budget int) *c03Func {
	f := &c03Func{name: name}
	g.fn, g.fnIdx = f, idx
	g.scopes, g.closed = nil, nil
	g.push()
	hasInt := false
	for i := 0; i < nparams; i++ {
		t := g.poolScalar()
		if i == nparams-1 && !hasInt {
			its := g.intTys()
			t = its[g.r.Intn(len(its))]
		}
		if t.kind != 0 {
			hasInt = true
		}
		pn := fmt.Sprintf("p%d_%d", idx, i)
		if name == "main" {
			pn = string(rune('a' + i))
		}
		v := g.newVar(pn)
		f.params = append(f.params, v)
		f.ptys = append(f.ptys, t)
		g.declare(v, t, false)
	}
	for i := 0; i < nrets; i++ {
		f.rets = append(f.rets, g.poolScalar())
	}
	g.budget = budget
	body, dead := g.stmts(budget, 3, true, false)
	if !dead {
		body = append(body, g.retStmt())
	}
	f.body = body
	return f
}

func c03Generate(r *RNG, class string, small, fewWide bool) *c03Prog {
	g := &c03Gen{r: r, small: small, fewWide: fewWide}
	g.p = &c03Prog{names: map[string]*c03Var{}, class: class}
	switch class {
	case "scope":
		g.allowScope = true
	case "litnarrow":
		g.allowLitNarrow = true
	case "litleft":
		g.allowLitLeft = true
	case "loopdecl":
		g.allowLoopDecl = true
	case "deadtail":
		g.deadAlways = true
	}
	// type pool: bool + 2..4 integer types, at least one unsigned
	g.pool = []*c03Ty{c03Bool}
	nt := r.Range(2, 4)
	if small {
		nt = 2
	}
	for i := 0; i < nt; i++ {
		kind := 1 + r.Intn(2)
		if i == 0 {
			kind = 2
		}
		w := g.randWidth()
		if class == "litnarrow" && i == 1 {
			kind, w = 1, r.Range(2, 31)
		}
		if class == "litleft" && i == 0 {
			w = []int{32, 33, 40, 64, 65, 128}[r.Intn(6)]
		}
		g.scalarTy(kind, w)
	}
	if !small {
		// composites over the pool
		its := g.intTys()
		for i := 0; i < r.Intn(3); i++ {
			g.arrs = append(g.arrs, &c03Ty{kind: 3, n: r.Range(2, 5), elem: its[r.Intn(len(its))]})
		}
		if r.Intn(3) == 0 {
			st := &c03Ty{kind: 4, name: "S0"}
			for i := 0; i < r.Range(2, 3); i++ {
				st.fields = append(st.fields, g.pool[r.Intn(len(g.pool))])
			}
			g.p.structs = append(g.p.structs, st)
			g.arrs = append(g.arrs, st)
		}
	}
	nf := 0
	if !small {
		nf = []int{0, 0, 1, 1, 2}[r.Intn(5)]
	}
	for i := 0; i < nf; i++ {
		g.p.funcs = append(g.p.funcs, g.genFunc(fmt.Sprintf("f%d", i), i, r.Range(1, 3), r.Range(1, 2), r.Range(1, 4)))
	}
	budget := r.Range(3, 12)
	np := r.Range(1, 3)
	if small {
		budget, np = r.Range(1, 3), r.Range(1, 2)
	}
	g.p.funcs = append(g.p.funcs, g.genFunc("main", nf, np, r.Range(1, 3), budget))
	// spelling of the program (same Mini term): each variant in about a third of the programs
	sr := r.Fork()
	g.p.style = c03Style{compound: sr.Intn(3) == 0, splitDecl: sr.Intn(3) == 0, groupParams: sr.Intn(3) == 0,
		hexLits: sr.Intn(3) == 0, comments: sr.Intn(3) == 0, loopForm: sr.Intn(3), named: sr.Intn(3) == 0}
	g.p.style.bareReturn = g.p.style.named && sr.Bool()
	return g.p
}

// ------------------------------------------------------- compile and run

type c03Compiled struct {
	circ     *circuit.Circuit
	prog     *ssa.Program
	listing  string
	err      string // compile error
	panicked bool
}

type c03Buf struct{ bytes.Buffer }

func (*c03Buf) Close() error { return nil }

var c03DevNull, _ = os.OpenFile(os.DevNull, os.O_WRONLY, 0)

// c03Opt is a combination of compiler options that are not supposed to
// change the meaning of a program (utils.Params; notes/C03-findings.md lists
// which fields are covered).
type c03Opt struct {
	name string
	set  func(p *utils.Params)
	// other entry points / call patterns: a complete compilation of p
	compile func(p *c03Prog, outDir string) c03Compiled
}

// c03Guarded runs a compilation with the compiler's stdout chatter discarded
// and panics turned into errors.
func c03Guarded(f func() (*circuit.Circuit, error)) (res c03Compiled) {
	saved := os.Stdout
	os.Stdout = c03DevNull
	defer func() { os.Stdout = saved }()
	defer func() {
		if r := recover(); r != nil {
			res.err, res.panicked = fmt.Sprint(r), true
		}
	}()
	circ, err := f()
	if err != nil {
		res.err = err.Error()
		return
	}
	res.circ = circ
	return
}

// one compiler object (and one Params with its SymbolIDs) used for many programs
var c03SharedCompiler = compiler.New(utils.NewParams())

// c03Doors: other ways into the same functionality than CompileSSA +
// CompileCircuit on a fresh compiler (notes/C03-findings.md, table Doors).
func c03Doors() []c03Opt {
	return []c03Opt{
		{name: "entry:Compiler.Compile", compile: func(p *c03Prog, _ string) c03Compiled {
			return c03Guarded(func() (*circuit.Circuit, error) {
				c, _, err := compiler.New(utils.NewParams()).Compile(p.src(), nil)
				return c, err
			})
		}},
		{name: "entry:Compiler.CompileFile", compile: func(p *c03Prog, dir string) c03Compiled {
			file := filepath.Join(dir, "c03door.mpcl")
			if err := os.WriteFile(file, []byte(p.src()), 0o644); err != nil {
				return c03Compiled{err: err.Error()}
			}
			return c03Guarded(func() (*circuit.Circuit, error) {
				c, _, err := compiler.New(utils.NewParams()).CompileFile(file, nil)
				return c, err
			})
		}},
		{name: "reused-compiler-object", compile: func(p *c03Prog, _ string) c03Compiled {
			return c03Guarded(func() (*circuit.Circuit, error) {
				c, _, err := c03SharedCompiler.Compile(p.src(), nil)
				return c, err
			})
		}},
		{name: "gc-pressure:GOGC=1", compile: func(p *c03Prog, _ string) c03Compiled {
			old := debug.SetGCPercent(1)
			defer debug.SetGCPercent(old)
			return c03CompileOpt(p.src(), nil)
		}},
		{name: "unsized-main-parameters+inputSizes", compile: func(p *c03Prog, _ string) c03Compiled {
			sty := p.style
			sty.unsized = true
			var sizes [][]int
			for _, w := range c03MainWidths(p) {
				sizes = append(sizes, []int{w})
			}
			src := p.srcStyled(sty)
			return c03Guarded(func() (*circuit.Circuit, error) {
				c, _, err := compiler.New(utils.NewParams()).Compile(src, sizes)
				return c, err
			})
		}},
	}
}

type c03Discard struct{}

func (c03Discard) Write(b []byte) (int, error) { return len(b), nil }
func (c03Discard) Close() error                { return nil }

func c03Options(thorough bool) []c03Opt {
	writers := func(p *utils.Params) {
		p.SSAOut, p.SSADotOut = c03Discard{}, c03Discard{}
		p.CircOut, p.CircDotOut, p.CircSvgOut = c03Discard{}, c03Discard{}, c03Discard{}
		p.CircFormat = "mpclc"
	}
	symbols := func(p *utils.Params) {
		p.SymbolIDs = map[string]int{"a": 7, "b": 3, "main": 1, "x": 0}
		p.PkgPath = []string{"/nonexistent/pkg", "/tmp"}
	}
	opts := []c03Opt{
		{name: "Wnone", set: func(p *utils.Params) { p.Warn.DisableAll() }},
		{name: "verbose+diagnostics+writers+errorloc", set: func(p *utils.Params) {
			p.Verbose, p.Diagnostics, p.MPCLCErrorLoc = true, true, true
			writers(p)
		}},
		{name: "prune+symbolids+pkgpath", set: func(p *utils.Params) {
			p.OptPruneGates = true
			symbols(p)
		}},
	}
	if thorough {
		opts = append(opts,
			c03Opt{name: "W-no-unreachable", set: func(p *utils.Params) { p.Warn.Unreachable = false }},
			c03Opt{name: "W-no-returndiff", set: func(p *utils.Params) { p.Warn.ReturnDiff = false }},
			c03Opt{name: "verbose", set: func(p *utils.Params) { p.Verbose = true }},
			c03Opt{name: "diagnostics", set: func(p *utils.Params) { p.Diagnostics = true }},
			c03Opt{name: "errorloc", set: func(p *utils.Params) { p.MPCLCErrorLoc = true }},
			c03Opt{name: "writers", set: writers},
			c03Opt{name: "circout-bristol", set: func(p *utils.Params) { p.CircOut, p.CircFormat = c03Discard{}, "bristol" }},
			c03Opt{name: "prune", set: func(p *utils.Params) { p.OptPruneGates = true }},
			c03Opt{name: "symbolids+pkgpath", set: symbols},
			c03Opt{name: "Wnone+prune+verbose", set: func(p *utils.Params) {
				p.Warn.DisableAll()
				p.OptPruneGates, p.Verbose = true, true
			}},
		)
	}
	return opts
}

func c03Compile(src string) (res c03Compiled) { return c03CompileOpt(src, nil) }

func c03CompileOpt(src string, opt *c03Opt) (res c03Compiled) {
	// the compiler logs diagnostics to os.Stdout
	saved := os.Stdout
	os.Stdout = c03DevNull
	defer func() { os.Stdout = saved }()
	defer func() {
		if r := recover(); r != nil {
			res.err = fmt.Sprint(r)
			res.panicked = true
		}
	}()
	params := utils.NewParams()
	buf := &c03Buf{}
	params.SSAOut = buf
	if opt != nil {
		opt.set(params)
	}
	prog, _, err := compiler.New(params).CompileSSA("{data}", strings.NewReader(src), nil)
	res.listing = buf.String()
	if err != nil {
		res.err = err.Error()
		return
	}
	res.prog = prog
	circ, err := prog.CompileCircuit(params)
	if err != nil {
		res.err = err.Error()
		return
	}
	res.circ = circ
	return
}

func c03Compute(circ *circuit.Circuit, in []*big.Int) (out []*big.Int, err string) {
	defer func() {
		if r := recover(); r != nil {
			err = "panic: " + fmt.Sprint(r)
		}
	}()
	args := make([]*big.Int, len(in))
	for i, v := range in {
		args[i] = new(big.Int).Set(v)
	}
	res, e := circ.Compute(args)
	if e != nil {
		return nil, e.Error()
	}
	out = make([]*big.Int, len(res))
	for i, v := range res {
		out[i] = c03Norm(int(circ.Outputs[i].Type.Bits), v)
	}
	return out, ""
}

var c03ErrClasses = []struct {
	re   *regexp.Regexp
	name string
}{
	{regexp.MustCompile(`no new variables on left side of :=`), "no-new-variables"},
	{regexp.MustCompile(`invalid mux arguments`), "mux-width"},
	{regexp.MustCompile(`invalid types:`), "invalid-types"},
	{regexp.MustCompile(`cannot (use|assi)`), "cannot-assign"},
	{regexp.MustCompile(`undefined`), "undefined"},
	{regexp.MustCompile(`unroll limit`), "unroll-limit"},
	{regexp.MustCompile(`Output already assigned`), "output-already-assigned"},
	{regexp.MustCompile(`index out of range|out of bounds`), "index-out-of-range"},
	{regexp.MustCompile(`syntax error|unexpected`), "syntax"},
}

func c03ErrClass(msg string) string {
	for _, ec := range c03ErrClasses {
		if ec.re.MatchString(msg) {
			return ec.name
		}
	}
	return "other"
}

// input vectors: exhaustive when the inputs have <= exhBits bits in total,
// else boundary values of every input combined, plus random ones.
func c03Vectors(r *RNG, widths []int, exhBits, n int) [][]*big.Int {
	total := 0
	for _, w := range widths {
		total += w
	}
	var out [][]*big.Int
	if total <= exhBits {
		for v := 0; v < 1<<uint(total); v++ {
			vec := make([]*big.Int, len(widths))
			x := v
			for i, w := range widths {
				vec[i] = big.NewInt(int64(x & (1<<uint(w) - 1)))
				x >>= uint(w)
			}
			out = append(out, vec)
		}
		return out
	}
	bnd := func(w int) []*big.Int {
		one := big.NewInt(1)
		max := c03Mask(w)                       // -1 / max unsigned
		min := new(big.Int).Lsh(one, uint(w-1)) // min signed / top bit
		smax := new(big.Int).Sub(min, one)      // max signed
		alt := new(big.Int)                     // 0101..
		for i := 0; i < w; i += 2 {
			alt.SetBit(alt, i, 1)
		}
		alt2 := new(big.Int).Xor(alt, max)
		l := []*big.Int{big.NewInt(0), one, max, min, smax, alt, alt2,
			new(big.Int).Add(min, one), new(big.Int).Sub(max, one), big.NewInt(2), big.NewInt(3)}
		for i := range l {
			l[i] = c03Norm(w, l[i])
		}
		return l
	}
	rnd := func(w int) *big.Int {
		b := r.Bytes((w + 7) / 8)
		v := new(big.Int).SetBytes(b)
		if r.Intn(4) == 0 { // small magnitudes, both signs
			v = big.NewInt(int64(r.Intn(16)))
			if r.Bool() {
				v.Neg(v)
			}
		}
		return c03Norm(w, v)
	}
	seen := map[string]bool{}
	add := func(vec []*big.Int) {
		k := fmt.Sprint(vec)
		if !seen[k] {
			seen[k] = true
			out = append(out, vec)
		}
	}
	bs := make([][]*big.Int, len(widths))
	for i, w := range widths {
		bs[i] = bnd(w)
	}
	// every boundary value of every input at least once, combined with
	// boundary values of the others
	for k := 0; len(out) < n*3/5 && k < 200; k++ {
		vec := make([]*big.Int, len(widths))
		for i := range widths {
			if k < len(bs[i]) && r.Intn(3) != 0 {
				vec[i] = bs[i][k]
			} else {
				vec[i] = bs[i][r.Intn(len(bs[i]))]
			}
		}
		add(vec)
	}
	for k := 0; len(out) < n && k < 400; k++ {
		vec := make([]*big.Int, len(widths))
		for i, w := range widths {
			if r.Intn(4) == 0 {
				vec[i] = bs[i][r.Intn(len(bs[i]))]
			} else {
				vec[i] = rnd(w)
			}
		}
		add(vec)
	}
	return out
}

func c03VecSX(vs [][]*big.Int) SX {
	l := make([]SX, len(vs))
	for i, v := range vs {
		items := make([]SX, len(v))
		for j, x := range v {
			items[j] = Big(x)
		}
		l[i] = L(items...)
	}
	return L(l...)
}

func c03VecStr(v []*big.Int) string {
	var parts []string
	for _, x := range v {
		parts = append(parts, "0x"+x.Text(16))
	}
	return strings.Join(parts, " ")
}

// ----------------------------------------------------- SSA listing → sx

var c03ValRe = regexp.MustCompile(`^(\S+?)\{(\d+),(\d+)\}(\D*?)(\d+)$`)

type c03ListOpnd struct {
	isConst bool
	key     string // name{scope,version}
	kind    string // i, u, b, arr, struct...
	bits    int
	text    string
}
type c03ListInstr struct {
	op   string
	args []c03ListOpnd
}

// c03ParseListing parses the text printed by ssa.Program.PP.
func c03ParseListing(text string) (inputs []string, instrs []c03ListInstr, err error) {
	for _, line := range strings.Split(text, "\n") {
		if strings.HasPrefix(line, "# Input") {
			// "# Input0: a:int8"
			i := strings.Index(line, ": ")
			rest := line[i+2:]
			j := strings.Index(rest, ":")
			if j < 0 {
				return nil, nil, fmt.Errorf("bad input line %q", line)
			}
			inputs = append(inputs, rest[:j])
			continue
		}
		if !strings.HasPrefix(line, "\t") {
			continue
		}
		f := strings.Fields(line)
		if len(f) == 0 {
			continue
		}
		in := c03ListInstr{op: f[0]}
		for _, tok := range f[1:] {
			if in.op == "circ" && (strings.HasPrefix(tok, "{G=") || strings.HasPrefix(tok, "W=")) {
				// "circ a b {G=376, W=504} r": the size of instr.Circ (the gates are
				// taken from the in-memory instruction, c03SSASX)
				continue
			}
			if strings.HasPrefix(tok, "$") {
				in.args = append(in.args, c03ListOpnd{isConst: true, text: tok})
				continue
			}
			m := c03ValRe.FindStringSubmatch(tok)
			if m == nil {
				return nil, nil, fmt.Errorf("cannot parse operand %q in %q", tok, line)
			}
			var bits int
			fmt.Sscan(m[5], &bits)
			in.args = append(in.args, c03ListOpnd{key: m[1] + "{" + m[2] + "," + m[3] + "}", kind: m[4], bits: bits, text: tok})
		}
		instrs = append(instrs, in)
	}
	return
}

var c03Modelled = map[ssa.Operand]bool{
	ssa.Iadd: true, ssa.Uadd: true, ssa.Isub: true, ssa.Usub: true, ssa.Imult: true, ssa.Umult: true,
	ssa.Idiv: true, ssa.Udiv: true, ssa.Imod: true, ssa.Umod: true,
	ssa.Band: true, ssa.Bor: true, ssa.Bxor: true, ssa.Bclr: true,
	ssa.Ilt: true, ssa.Ult: true, ssa.Ile: true, ssa.Ule: true, ssa.Igt: true, ssa.Ugt: true,
	ssa.Ige: true, ssa.Uge: true, ssa.Eq: true, ssa.Neq: true, ssa.And: true, ssa.Or: true, ssa.Not: true,
	ssa.Mov: true, ssa.Smov: true, ssa.Lshift: true, ssa.Rshift: true, ssa.Srshift: true,
	ssa.Slice: true, ssa.Amov: true, ssa.Index: true, ssa.Phi: true,
	ssa.Concat: true, ssa.Bts: true, ssa.Btc: true,
	ssa.Builtin: true, // only circuits.Hamming (checked in c03SSASX)
	ssa.Circ:    true, // native circuit: instr.Circ is exported with the instruction
}

// c03SSASX converts the parsed listing into the term of Lang/Ssa.v.  The
// listing gives opcode, value identity, type letter and width of every value
// operand; it prints constants by name only, so the declared type of a
// constant operand and the wires of the constant (Program.DefineConstants)
// are taken from the in-memory program the listing was printed from.  Both
// views are checked against each other instruction by instruction.
func c03SSASX(res *c03Compiled) (SX, string) {
	inNames, list, err := c03ParseListing(res.listing)
	if err != nil {
		return SX{}, "listing: " + err.Error()
	}
	prog := res.prog
	if len(inNames) != len(prog.Inputs) {
		return SX{}, "listing: input count differs"
	}
	idx := map[string]int{}
	var widths []SX
	for i, arg := range prog.Inputs {
		if inNames[i] != arg.Name {
			return SX{}, "listing: input name differs"
		}
		idx[fmt.Sprintf("%s{1,0}", arg.Name)] = i
		widths = append(widths, I(int(arg.Type.Bits)))
	}
	if len(list) != len(prog.Steps) {
		return SX{}, fmt.Sprintf("listing: %d lines, %d steps", len(list), len(prog.Steps))
	}
	opnd := func(lo c03ListOpnd, v ssa.Value) (SX, string) {
		sg := v.Type.Type == types.TInt
		if lo.isConst != v.Const {
			return SX{}, "listing: const/value mismatch at " + lo.text
		}
		if v.Const {
			ci, ok := prog.Constants[v.Name]
			cw := 0
			val := new(big.Int)
			if ok {
				cw = int(ci.Const.Type.Bits)
				for b := 0; b < cw; b++ {
					if ci.Const.Bit(types.Size(b)) {
						val.SetBit(val, b, 1)
					}
				}
			} else {
				// not defined by DefineConstants: only its ConstInt() is used
				// (shift counts, slice bounds); value from the name
				n, err := v.ConstInt()
				if err != nil {
					return SX{}, "constant " + v.Name + " not defined"
				}
				val.SetInt64(int64(n))
				cw = int(v.Type.Bits)
			}
			return L(I(1), I(cw), Big(val), Bool(sg), I(int(v.Type.Bits))), ""
		}
		key := fmt.Sprintf("%s{%d,%d}", v.Name, v.Scope, v.Version)
		if key != lo.key || lo.bits != int(v.Type.Bits) || (lo.kind == "i") != sg {
			return SX{}, "listing: operand differs: " + lo.text + " vs " + v.String()
		}
		i, ok := idx[key]
		if !ok {
			return SX{}, "use before definition: " + key
		}
		return L(I(0), I(i), Bool(lo.kind == "i"), I(lo.bits)), ""
	}
	var instrs []SX
	var rets []SX
	next := len(prog.Inputs)
	for si, step := range prog.Steps {
		in := step.Instr
		li := list[si]
		if li.op != in.Op.String() {
			return SX{}, "listing: opcode differs"
		}
		if in.Op == ssa.GC {
			continue
		}
		nOut := 0
		if in.Out != nil {
			nOut = 1
		}
		if in.Op != ssa.Circ && len(li.args) != len(in.In)+nOut {
			return SX{}, "listing: operand count differs at " + in.String()
		}
		var args []SX
		for k, v := range in.In {
			o, e := opnd(li.args[k], v)
			if e != "" {
				return SX{}, e
			}
			args = append(args, o)
		}
		if in.Op == ssa.Ret {
			rets = args
			continue
		}
		if in.Op == ssa.Circ {
			// circ a.. {G,W} r0 .. rm: Lang/Ssa.v's Ocirc defines ONE value, the
			// concatenation of all results (the wires circOut of Program.Circuit);
			// one slice instruction per r_j follows (slice emits no gate, so r_j is
			// registered with exactly the wires walloc holds for it)
			if in.Circ == nil || in.Out != nil || len(li.args) != len(in.In)+len(in.Ret) {
				return SX{}, "listing: circ operands differ at " + in.String()
			}
			var ins []SX
			for _, io := range in.Circ.Inputs {
				ins = append(ins, I(int(io.Type.Bits)))
			}
			total := 0
			for _, r := range in.Ret {
				total += int(r.Type.Bits)
			}
			dims, gates := CircuitSX(in.Circ)
			instrs = append(instrs, L(I(int(in.Op)), I(0), Bool(false), I(total), L(args...), L(ins...), dims, gates))
			whole := next
			next++
			off := 0
			for j, r := range in.Ret {
				lo := li.args[len(in.In)+j]
				rkey := fmt.Sprintf("%s{%d,%d}", r.Name, r.Scope, r.Version)
				rsg := r.Type.Type == types.TInt
				if lo.isConst || lo.key != rkey || lo.bits != int(r.Type.Bits) || (lo.kind == "i") != rsg {
					return SX{}, "listing: circ result differs at " + in.String()
				}
				if _, dup := idx[rkey]; dup {
					return SX{}, "value defined twice: " + rkey
				}
				w := int(r.Type.Bits)
				k := func(v int) SX { return L(I(1), I(32), I(v), Bool(true), I(32)) }
				instrs = append(instrs, L(I(int(ssa.Slice)), I(0), Bool(rsg), I(w),
					L(L(I(0), I(whole), Bool(false), I(total)), k(off), k(off+w))))
				idx[rkey] = next
				next++
				off += w
			}
			continue
		}
		if !c03Modelled[in.Op] || in.Out == nil {
			return SX{}, "unmodelled opcode " + in.Op.String()
		}
		lo := li.args[len(li.args)-1]
		okey := fmt.Sprintf("%s{%d,%d}", in.Out.Name, in.Out.Scope, in.Out.Version)
		if lo.isConst || lo.key != okey || lo.bits != int(in.Out.Type.Bits) {
			return SX{}, "listing: output differs at " + in.String()
		}
		if _, dup := idx[okey]; dup {
			return SX{}, "value defined twice: " + okey
		}
		aux := 0
		if in.Op == ssa.Index {
			aux = int(in.In[0].Type.ElementType.Bits)
		}
		if in.Op == ssa.Builtin {
			// the listing prints "builtin" only; the function is taken from the
			// in-memory instruction: 1 = circuits.Hamming (the only builtin
			// ast/builtin.go emits)
			if in.Builtin == nil || reflect.ValueOf(in.Builtin).Pointer() != reflect.ValueOf(circuits.Builtin(circuits.Hamming)).Pointer() {
				return SX{}, "unmodelled builtin"
			}
			aux = 1
		}
		instrs = append(instrs, L(I(int(in.Op)), I(aux), Bool(lo.kind == "i"), I(lo.bits), L(args...)))
		idx[okey] = next
		next++
	}
	return L(L(widths...), L(instrs...), L(rets...)), ""
}

// ------------------------------------------------------------ shrinking

// c03Shrink greedily applies size-reducing edits while pred stays true.
func c03Shrink(p *c03Prog, pred func(*c03Prog) bool, maxTries int) *c03Prog {
	tries := 0
	try := func(c *c03Prog) bool {
		if tries >= maxTries || !c03Valid(c) {
			return false
		}
		tries++
		return pred(c)
	}
	changed := true
	for changed && tries < maxTries {
		changed = false
		// 1. delete / flatten statements
		for fi := range p.funcs {
			paths := c03StmtPaths(p.funcs[fi].body, nil)
			for pi := len(paths) - 1; pi >= 0; pi-- {
				for _, edit := range []int{0, 1, 2, 3} {
					c := p.clone()
					if !c03EditStmt(c.funcs[fi], paths[pi], edit) {
						continue
					}
					if try(c) {
						p = c
						changed = true
						break
					}
				}
				if changed {
					break
				}
			}
			if changed {
				break
			}
		}
		if changed {
			continue
		}
		// 2. drop helper functions that are no longer called (renumbering calls)
		// (kept simple: only the case of no calls at all)
		if len(p.funcs) > 1 && !c03HasCall(p) {
			c := p.clone()
			c.funcs = c.funcs[len(c.funcs)-1:]
			if try(c) {
				p = c
				changed = true
				continue
			}
		}
		// 3. replace expressions by sub-expressions / simplify
		for fi := range p.funcs {
			n := c03CountExprs(p.funcs[fi].body)
			for ei := 0; ei < n && !changed; ei++ {
				for _, edit := range []int{0, 1} {
					c := p.clone()
					if !c03EditExpr(c.funcs[fi].body, ei, edit) {
						continue
					}
					if try(c) {
						p = c
						changed = true
						break
					}
				}
			}
			if changed {
				break
			}
		}
		if changed {
			continue
		}
		// 4. width reduction: every scalar type object of the program
		for _, t := range c03ScalarTys(p) {
			if t == c03Int32 || t.kind == 0 {
				continue
			}
			for _, w := range []int{1, 2, 3, 4, 8, 16, 32, 33, 64} {
				if w >= t.w {
					break
				}
				old := t.w
				t.w = w
				c03ClampLits(p)
				if try(p.clone()) {
					changed = true
					break
				}
				t.w = old
			}
			if changed {
				break
			}
		}
	}
	return p
}

func c03HasCall(p *c03Prog) bool {
	found := false
	var walk func(b []*c03Stmt)
	walk = func(b []*c03Stmt) {
		for _, s := range b {
			if s.tag == c03SCall {
				found = true
			}
			walk(s.a)
			walk(s.b)
		}
	}
	for _, f := range p.funcs {
		walk(f.body)
	}
	return found
}

// paths to every statement: sequence of (index, branch) steps
func c03StmtPaths(b []*c03Stmt, prefix []int) [][]int {
	var out [][]int
	for i, s := range b {
		p := append(append([]int(nil), prefix...), i)
		out = append(out, p)
		if s.tag == c03SIf || s.tag == c03SFor {
			out = append(out, c03StmtPaths(s.a, append(append([]int(nil), p...), 0))...)
			out = append(out, c03StmtPaths(s.b, append(append([]int(nil), p...), 1))...)
		}
	}
	return out
}

func c03BlockAt(f *c03Func, path []int) (*[]*c03Stmt, int) {
	blk := &f.body
	for len(path) > 1 {
		s := (*blk)[path[0]]
		if path[1] == 0 {
			blk = &s.a
		} else {
			blk = &s.b
		}
		path = path[2:]
	}
	return blk, path[0]
}

// edit 0: delete the statement; 1: replace an if by its then-block, a for by
// one copy of... (not sound for the loop variable) -> for: reduce count;
// 2: replace an if by its else-block; 3: drop the else-branch
func c03EditStmt(f *c03Func, path []int, edit int) bool {
	blk, i := c03BlockAt(f, path)
	if i >= len(*blk) {
		return false
	}
	s := (*blk)[i]
	splice := func(repl []*c03Stmt) {
		nb := append([]*c03Stmt(nil), (*blk)[:i]...)
		nb = append(nb, repl...)
		nb = append(nb, (*blk)[i+1:]...)
		*blk = nb
	}
	switch edit {
	case 0:
		splice(nil)
		return true
	case 1:
		if s.tag == c03SIf {
			splice(s.a)
			return true
		}
		if s.tag == c03SFor && s.cnt > 0 {
			s.cnt--
			return true
		}
	case 2:
		if s.tag == c03SIf && s.hasEls {
			splice(s.b)
			return true
		}
	case 3:
		if s.tag == c03SIf && s.hasEls {
			s.hasEls = false
			s.b = nil
			return true
		}
	}
	return false
}

func c03StmtExprs(s *c03Stmt) []**c03Expr {
	var l []**c03Expr
	if s.e != nil {
		l = append(l, &s.e)
	}
	if s.c != nil {
		l = append(l, &s.c)
	}
	for i := range s.es {
		l = append(l, &s.es[i])
	}
	return l
}

func c03AllExprSlots(b []*c03Stmt) []**c03Expr {
	var out []**c03Expr
	var walkE func(pe **c03Expr)
	walkE = func(pe **c03Expr) {
		out = append(out, pe)
		if (*pe).a != nil {
			walkE(&(*pe).a)
		}
		if (*pe).b != nil {
			walkE(&(*pe).b)
		}
	}
	var walk func(b []*c03Stmt)
	walk = func(b []*c03Stmt) {
		for _, s := range b {
			for _, pe := range c03StmtExprs(s) {
				walkE(pe)
			}
			walk(s.a)
			walk(s.b)
		}
	}
	walk(b)
	return out
}

func c03CountExprs(b []*c03Stmt) int { return len(c03AllExprSlots(b)) }

// edit 0: replace by operand a; 1: replace by operand b (validity is checked
// by c03Valid afterwards: types must still agree)
func c03EditExpr(b []*c03Stmt, ei, edit int) bool {
	slots := c03AllExprSlots(b)
	if ei >= len(slots) {
		return false
	}
	e := *slots[ei]
	switch {
	case edit == 0 && e.a != nil:
		*slots[ei] = e.a
		return true
	case edit == 1 && e.b != nil:
		*slots[ei] = e.b
		return true
	}
	return false
}

func c03ScalarTys(p *c03Prog) []*c03Ty {
	seen := map[*c03Ty]bool{}
	var out []*c03Ty
	var addT func(t *c03Ty)
	addT = func(t *c03Ty) {
		if t == nil {
			return
		}
		switch t.kind {
		case 3:
			addT(t.elem)
		case 4:
			for _, f := range t.fields {
				addT(f)
			}
		default:
			if !seen[t] {
				seen[t] = true
				out = append(out, t)
			}
		}
	}
	var walkE func(e *c03Expr)
	walkE = func(e *c03Expr) {
		if e == nil {
			return
		}
		addT(e.t)
		addT(e.to)
		addT(e.at)
		walkE(e.a)
		walkE(e.b)
	}
	var walk func(b []*c03Stmt)
	walk = func(b []*c03Stmt) {
		for _, s := range b {
			addT(s.t)
			for _, t := range s.xts {
				addT(t)
			}
			for _, pe := range c03StmtExprs(s) {
				walkE(*pe)
			}
			walk(s.a)
			walk(s.b)
		}
	}
	for _, f := range p.funcs {
		for _, t := range f.ptys {
			addT(t)
		}
		for _, t := range f.rets {
			addT(t)
		}
		walk(f.body)
	}
	sort.Slice(out, func(i, j int) bool { return out[i].w > out[j].w })
	return out
}

func c03ClampLits(p *c03Prog) {
	for _, f := range p.funcs {
		for _, pe := range c03AllExprSlots(f.body) {
			e := *pe
			if e.tag == c03ELit && e.t.kind != 0 && !c03LitFits(e.t, e.n) {
				bits := e.t.w
				if e.t.kind == 1 {
					bits--
				}
				if bits <= 0 {
					e.n = big.NewInt(0)
				} else {
					e.n = new(big.Int).And(e.n, c03Mask(bits))
				}
			}
		}
	}
}

// ---------------------------------------------------------- failure keys

func c03FailKey(p *c03Prog, kind string) string {
	ft := c03Features(p)
	var ops []string
	litOps := func(pred func(e *c03Expr) bool) []string {
		set := map[string]bool{}
		for _, f := range p.funcs {
			for _, pe := range c03AllExprSlots(f.body) {
				e := *pe
				if e.tag == c03EBin && c03Sensitive(e.op) && pred(e) {
					set[c03BinName[e.op]] = true
				}
			}
		}
		var l []string
		for k := range set {
			l = append(l, k)
		}
		sort.Strings(l)
		return l
	}
	switch {
	case ft["short-declaration-in-unrolled-loop-body"] && strings.HasPrefix(kind, "compile-error:no-new-variables"):
		return "c03:src:for:short-declaration-in-unrolled-loop-body:" + kind
	case (ft["composite-store-of-constant"] || ft["copy"]) && kind == "wrong-value" &&
		!ft["shadow"] && !ft["sibling-scope-name-reuse"] && !ft["literal-operand:int<32:sign-sensitive"] &&
		!ft["literal-left:uint:sign-sensitive"]:
		return "c03:src:store:constant-or-longer-array-into-composite-slot:" + kind
	case ft["shadow"]:
		return "c03:src:shadow:declaration-in-nested-block-of-outer-name:" + kind
	case ft["nested-conditional-assignment-in-both-arms"] && kind == "wrong-value" &&
		!ft["sibling-scope-name-reuse"] && !ft["literal-operand:int<32:sign-sensitive"] &&
		!ft["literal-left:uint:sign-sensitive"]:
		return "c03:src:merge:nested-conditional-assignment-of-one-variable-in-both-arms:" + kind
	case ft["sibling-scope-name-reuse"]:
		return "c03:src:block-scope:name-reused-after-its-block-closed:" + kind
	case ft["literal-operand:int<32:sign-sensitive"]:
		ops = litOps(func(e *c03Expr) bool {
			return e.t.kind == 1 && e.t.w < 32 && (c03IsConstExpr(e.a) || c03IsConstExpr(e.b))
		})
		return "c03:src:literal-operand:int<32:" + strings.Join(ops, "+") + ":" + kind
	case ft["literal-left:uint:sign-sensitive"]:
		ops = litOps(func(e *c03Expr) bool { return e.t.kind == 2 && c03IsConstExpr(e.a) })
		return "c03:src:literal-left-operand:uint:" + strings.Join(ops, "+") + ":" + kind
	}
	return "c03:src:core:" + strings.Join(ft.list(), "+") + ":" + kind
}

type c03Replay struct {
	Seed     uint64   `json:"seed"`
	Case     int      `json:"case"`
	Class    string   `json:"class"`
	Program  string   `json:"program"`
	Inputs   string   `json:"inputs,omitempty"`
	Expected string   `json:"expected,omitempty"`
	Got      string   `json:"got,omitempty"`
	Error    string   `json:"error,omitempty"`
	Original string   `json:"original_program,omitempty"`
	Features []string `json:"features"`
}

// c03Check compiles p and compares circuit and reference interpreter on the
// vectors; returns the index of the first failing vector (-1: none), the
// outcome kind and details.
type c03Outcome struct {
	kind    string // "", "wrong-value", "compile-error:<class>", "panic:<class>", "compute-error"
	vec     int
	got     []*big.Int
	want    []*big.Int
	err     string
	res     c03Compiled
	outs    [][]*big.Int // circuit outputs per vector (when everything agreed or up to the failure)
	divZero int
}

func c03Check(p *c03Prog, vecs [][]*big.Int) c03Outcome {
	res := c03Compile(p.src())
	o := c03Outcome{vec: -1, res: res}
	if res.err != "" {
		if res.panicked {
			o.kind = "panic:" + c03ErrClass(res.err)
		} else {
			o.kind = "compile-error:" + c03ErrClass(res.err)
		}
		o.err = res.err
		return o
	}
	st := &c03Stats{}
	ws := c03MainWidths(p)
	for i, v := range vecs {
		// inputs are bit patterns of the declared widths (the shrinker may
		// have narrowed a type after the vectors were drawn)
		for k := range v {
			if k < len(ws) {
				v[k] = c03Norm(ws[k], v[k])
			}
		}
		want := c03Run(p, v, st)
		got, e := c03Compute(res.circ, v)
		if e != "" {
			o.kind, o.vec, o.err, o.want = "compute-error", i, e, want
			return o
		}
		o.outs = append(o.outs, got)
		if len(got) != len(want) {
			o.kind, o.vec, o.got, o.want = "wrong-value", i, got, want
			return o
		}
		for k := range got {
			if got[k].Cmp(want[k]) != 0 {
				o.kind, o.vec, o.got, o.want = "wrong-value", i, got, want
				return o
			}
		}
	}
	o.divZero = st.divZero
	return o
}

func c03MainWidths(p *c03Prog) []int {
	m := p.funcs[len(p.funcs)-1]
	ws := make([]int, len(m.ptys))
	for i, t := range m.ptys {
		ws[i] = t.width()
	}
	return ws
}

// ------------------------------------------------------------------ run

// c03OptSig: what a program does under an option set: the compile-error class,
// or the circuit outputs on the vectors.
var c03DoorDir = os.TempDir()

func c03OptSig(p *c03Prog, vecs [][]*big.Int, opt *c03Opt) (string, string) {
	if opt != nil && opt.compile != nil {
		return c03OptSigOf(p, vecs, opt.compile(p, c03DoorDir))
	}
	return c03OptSigOf(p, vecs, c03CompileOpt(p.src(), opt))
}

func c03OptSigOf(p *c03Prog, vecs [][]*big.Int, res c03Compiled) (string, string) {
	if res.err != "" {
		kind := "compile-error:"
		if res.panicked {
			kind = "panic:"
		}
		return kind + c03ErrClass(res.err), res.err
	}
	ws := c03MainWidths(p)
	var sb strings.Builder
	for _, v := range vecs {
		in := make([]*big.Int, len(v))
		for k := range v {
			in[k] = c03Norm(ws[k], v[k])
		}
		got, e := c03Compute(res.circ, in)
		if e != "" {
			return "compute-error", e
		}
		sb.WriteString(c03VecStr(got))
		sb.WriteByte(';')
	}
	return sb.String(), ""
}

type c03OptReplay struct {
	Seed      uint64   `json:"seed"`
	Case      int      `json:"case"`
	Options   string   `json:"options"`
	Program   string   `json:"program"`
	Inputs    string   `json:"inputs,omitempty"`
	Default   string   `json:"with_default_options"`
	Variant   string   `json:"with_these_options"`
	Reference string   `json:"reference,omitempty"`
	Original  string   `json:"original_program,omitempty"`
	Features  []string `json:"features"`
}

// c03OptionSweep: options that are not supposed to change meaning must not
// change it: under every option set the program compiles iff it compiles
// with utils.NewParams() (same error class) and the circuit gives the same
// outputs (compared on a spread of at most 12 of the vectors).
func c03OptionSweep(c *Ctx, i int, p *c03Prog, vecs [][]*big.Int, def c03Compiled, reported map[string]int) {
	sub := vecs
	if len(sub) > 12 {
		sub = nil
		for k := 0; k < 12; k++ {
			sub = append(sub, vecs[k*len(vecs)/12])
		}
	}
	base, _ := c03OptSigOf(p, sub, def) // the compilation with utils.NewParams() made by c03Check
	c03DoorDir = c.OutDir
	if def.circ != nil {
		c03ComputePatterns(c, i, p, sub, def, reported)
	}
	opts := c03Options(c.Thorough())
	nOpt := len(opts)
	opts = append(opts, c03Doors()...)
	for oi, opt := range opts {
		opt := opt
		// quick tier: warnings-off on every program, the other option sets on
		// every third, the other entry points / call patterns on every eighth
		if !c.Thorough() && oi > 0 && oi < nOpt && i%3 != 0 {
			continue
		}
		if !c.Thorough() && oi >= nOpt && i%8 != 1 {
			continue
		}
		sig, _ := c03OptSig(p, sub, &opt)
		c.Hist("options:" + opt.name)
		if sig == base {
			continue
		}
		differs := func(q *c03Prog) bool {
			if fmt.Sprint(c03MainWidths(q)) != fmt.Sprint(c03MainWidths(p)) {
				return false
			}
			b, _ := c03OptSig(q, sub, nil)
			v, _ := c03OptSig(q, sub, &opt)
			return b != v
		}
		orig := p.src()
		shr := c03Shrink(p.clone(), differs, c.N(60, 200))
		b, berr := c03OptSig(shr, sub, nil)
		v, verr := c03OptSig(shr, sub, &opt)
		rep := c03OptReplay{Seed: c.Seed, Case: i, Options: opt.name, Program: shr.src(), Original: orig,
			Default: b + berr, Variant: v + verr, Features: c03Features(shr).list()}
		kind := "changes-meaning"
		if strings.HasPrefix(b, "compile-error") != strings.HasPrefix(v, "compile-error") ||
			strings.HasPrefix(b, "panic") != strings.HasPrefix(v, "panic") {
			kind = "changes-compile-outcome"
		} else {
			bs, vs := strings.Split(b, ";"), strings.Split(v, ";")
			for k := range sub {
				if k < len(bs) && k < len(vs) && bs[k] != vs[k] {
					ws := c03MainWidths(shr)
					in := make([]*big.Int, len(sub[k]))
					for j := range in {
						in[j] = c03Norm(ws[j], sub[k][j])
					}
					rep.Inputs = c03VecStr(in)
					rep.Default, rep.Variant = bs[k], vs[k]
					rep.Reference = c03VecStr(c03Run(shr, sub[k], nil))
					break
				}
			}
		}
		key := "c03:options:" + opt.name + ":" + kind
		if opt.compile != nil {
			key = "c03:door:" + opt.name + ":" + kind
		}
		what := fmt.Sprintf("%s under options %s: inputs %s: default options give %s, these options give %s (reference %s)",
			kind, opt.name, rep.Inputs, rep.Default, rep.Variant, rep.Reference)
		reported[key]++
		if reported[key] <= 3 {
			c.Fail(key, what, rep)
		}
		c.Hist("oracle-failure:" + key)
	}
}

// c03ComputePatterns: Circuit.Compute is called the way callers may call it:
// signed inputs as NEGATIVE big.Ints (the testsuite writes -43), the same
// big.Int object passed for two parameters, twice in a row on the same
// circuit; the inputs must not be modified and the outputs must be those of
// the plain call.
func c03ComputePatterns(c *Ctx, i int, p *c03Prog, vecs [][]*big.Int, def c03Compiled, reported map[string]int) {
	m := p.funcs[len(p.funcs)-1]
	ws := c03MainWidths(p)
	fail := func(pattern, what string, v []*big.Int) {
		key := "c03:compute:" + pattern + ":changes-result"
		reported[key]++
		if reported[key] <= 3 {
			c.Fail(key, what, c03OptReplay{Seed: c.Seed, Case: i, Options: pattern, Program: p.src(),
				Inputs: c03VecStr(v), Features: c03Features(p).list()})
		}
		c.Hist("oracle-failure:" + key)
	}
	c.Hist("compute-call-patterns")
	for _, v0 := range vecs {
		v := make([]*big.Int, len(v0))
		for k := range v0 {
			v[k] = c03Norm(ws[k], v0[k])
		}
		want, e := c03Compute(def.circ, v)
		if e != "" {
			return
		}
		args := make([]*big.Int, len(v))
		for k := range v {
			a := new(big.Int).Set(v[k])
			if m.ptys[k].kind == 1 && a.Bit(ws[k]-1) == 1 { // negative value of a signed parameter
				a.Sub(a, new(big.Int).Lsh(big.NewInt(1), uint(ws[k])))
			}
			args[k] = a
			for j := 0; j < k; j++ { // aliased argument objects
				if args[j].Cmp(a) == 0 {
					args[k] = args[j]
				}
			}
		}
		before := make([]string, len(args))
		for k, a := range args {
			before[k] = a.String()
		}
		for round := 0; round < 2; round++ {
			var got []*big.Int
			var err error
			func() {
				defer func() {
					if r := recover(); r != nil {
						err = fmt.Errorf("panic: %v", r)
					}
				}()
				got, err = def.circ.Compute(args)
			}()
			if err != nil || len(got) != len(want) {
				fail("negative-and-aliased-inputs", fmt.Sprintf("Compute(%v) fails: %v", before, err), v)
				return
			}
			for k := range got {
				if c03Norm(int(def.circ.Outputs[k].Type.Bits), got[k]).Cmp(want[k]) != 0 {
					fail("negative-and-aliased-inputs", fmt.Sprintf("Compute(%v), call %d: output %d = 0x%s, plain call 0x%s",
						before, round+1, k, got[k].Text(16), want[k].Text(16)), v)
					return
				}
			}
			for k, a := range args {
				if a.String() != before[k] {
					fail("inputs-modified", fmt.Sprintf("Compute modified input %d: %s -> %s", k, before[k], a.String()), v)
					return
				}
			}
		}
	}
}

func runC03(c *Ctx) error {
	nProg := c.N(150, 5000)
	nVec := 40
	exhBits := 12
	classes := []string{"core", "core", "core", "core", "core", "core", "core", "core", "core", "scope", "scope", "litnarrow", "litleft", "loopdecl"}
	reported := map[string]int{}
	ssaSkipped := map[string]int{}
	var family []*c03Prog
	for round := 0; round < c.N(1, 12); round++ {
		family = append(family, c03MergeFamily(round)...)
	}
	for round := 0; round < c.N(1, 2); round++ {
		family = append(family, c03StoreFamily(round)...)
	}
	family = append(family, c03WideLitFamily()...)
	family = append(family, c03LitOpFamily()...)
	// dead code after a return, in every run (fixed seeds): main and callees
	for k := 0; k < c.N(6, 60); k++ {
		family = append(family, c03Generate(NewRNG(uint64(0xDEAD0000+k)), "deadtail", false, true))
	}
	nProg += len(family)
	for i := 0; i < nProg; i++ {
		r := c.rng.Fork()
		class := classes[i%len(classes)]
		small := i < 8
		if small {
			class = "core"
		}
		var p *c03Prog
		if i >= nProg-len(family) {
			p = family[i-(nProg-len(family))]
			class = p.class
		} else {
			p = c03Generate(r, class, small, !c.Thorough())
		}
		if !c03Valid(p) {
			return fmt.Errorf("case %d: generator produced an ill-formed program:\n%s", i, p.src())
		}
		nv := nVec
		eb := exhBits
		if small {
			nv, eb = 6, 3
		}
		vecs := c03Vectors(r.Fork(), c03MainWidths(p), eb, nv)
		out := c03Check(p, vecs)
		c03OptionSweep(c, i, p, vecs, out.res, reported)
		ft := c03Features(p)
		for _, f := range ft.list() {
			c.Hist("construct:" + f)
		}
		c.Hist("class:" + class)
		for _, w := range c03MainWidths(p) {
			c.Hist(fmt.Sprintf("input-width:%s", c03WidthBucket(w)))
		}
		if len(vecs) > nv {
			c.Hist("inputs:exhaustive")
		} else {
			c.Hist("inputs:boundary+random")
		}
		if out.divZero > 0 {
			c.Hist("division-by-zero-evaluations")
		}
		if out.kind == "" {
			// agreement on every vector
			for _, v := range vecs {
				c.Eval(p.src()+"|"+c03VecStr(v), true)
			}
			obs := c03VecSX(out.outs)
			c.Case(L(I(0), p.sx(), c03VecSX(vecs)), obs)
			// the lowering model (Lang/Lower.v) on the same program: a bounded
			// number of vectors (its agreement with exec_mini is a theorem)
			lv := vecs
			if len(lv) > 16 {
				lv = lv[:16]
			}
			c.Case(L(I(3), p.sx(), c03VecSX(lv)), c03VecSX(out.outs[:len(lv)]))
			c.Hist("lowering-model-cases")
			ssx, why := c03SSASX(&out.res)
			if why == "" {
				c.Case(L(I(1), ssx, c03VecSX(vecs)), obs)
				c.Hist("ssa-listing-cases")
				c03cgCase(c, p.src(), ssx, vecs, &out.res) // SSA -> circuit model (c03cg.go, modes 4/5)
			} else {
				ssaSkipped[why]++
				if ssaSkipped[why] == 1 {
					c.Note("first program whose SSA listing was skipped (%s):\n%s", why, p.src())
				}
			}
			if i < 3 {
				c.Sample(map[string]string{"program": p.src(), "inputs": c03VecStr(vecs[0]), "outputs": c03VecStr(out.outs[0])})
			}
			continue
		}
		// oracle failure: shrink, report
		orig := p.src()
		kind := out.kind
		fvec := vecs
		shr := c03Shrink(p, func(q *c03Prog) bool {
			ws := c03MainWidths(q)
			vs := fvec
			if fmt.Sprint(ws) != fmt.Sprint(c03MainWidths(p)) {
				vs = c03Vectors(NewRNG(c.Seed+uint64(i)), ws, eb, nv)
			}
			return c03Check(q, vs).kind == kind
		}, c.N(60, 400))
		svecs := vecs
		if fmt.Sprint(c03MainWidths(shr)) != fmt.Sprint(c03MainWidths(p)) {
			svecs = c03Vectors(NewRNG(c.Seed+uint64(i)), c03MainWidths(shr), eb, nv)
		}
		so := c03Check(shr, svecs)
		if so.kind != kind { // cannot happen: the predicate held
			shr, so, svecs = p, out, vecs
		}
		key := c03FailKey(shr, kind)
		rep := c03Replay{Seed: c.Seed, Case: i, Class: class, Program: shr.src(), Error: so.err,
			Original: orig, Features: c03Features(shr).list()}
		if so.vec >= 0 {
			rep.Inputs = c03VecStr(svecs[so.vec])
			rep.Expected = c03VecStr(so.want)
			if so.got != nil {
				rep.Got = c03VecStr(so.got)
			}
		}
		what := kind
		if so.vec >= 0 {
			what = fmt.Sprintf("%s: inputs %s: circuit %s, reference %s", kind, rep.Inputs, rep.Got, rep.Expected)
		} else if so.err != "" {
			what = kind + ": " + so.err
		}
		reported[key]++
		if reported[key] <= 3 { // at most three replays per key
			c.Fail(key, what, rep)
		}
		c.Hist("oracle-failure:" + key)
		for range svecs {
			c.Eval(shr.src(), true)
		}
		// the expected values of the finding are confirmed by exec_mini
		if so.vec >= 0 {
			exp := make([][]*big.Int, len(svecs))
			for k, v := range svecs {
				exp[k] = c03Run(shr, v, nil)
			}
			c.Case(L(I(2), shr.sx(), c03VecSX(svecs)), c03VecSX(exp))
		}
		// the SSA listing of the failing program still has to agree with the circuit
		if so.res.circ != nil {
			if ssx, why := c03SSASX(&so.res); why == "" {
				var outs [][]*big.Int
				ok := true
				for _, v := range svecs {
					g, e := c03Compute(so.res.circ, v)
					if e != "" {
						ok = false
						break
					}
					outs = append(outs, g)
				}
				if ok {
					c.Case(L(I(1), ssx, c03VecSX(svecs)), c03VecSX(outs))
					c.Hist("ssa-listing-cases")
				}
			} else {
				ssaSkipped[why]++
			}
		}
	}
	for why, n := range ssaSkipped {
		c.Note("SSA tie skipped for %d programs: %s", n, why)
		c.Hist("ssa-listing-skipped")
	}
	for key, n := range reported {
		c.Note("oracle failures with key %s: %d programs", key, n)
	}
	c03cgOpcodeFamily(c) // directed programs: concat, builtin, bts/btc (c03cg.go)
	if err := c03Packages(c); err != nil {
		return err
	}
	return c03Testsuite(c)
}

func c03WidthBucket(w int) string {
	switch {
	case w == 1:
		return "1"
	case w <= 8:
		return "2-8"
	case w < 32:
		return "9-31"
	case w == 32:
		return "32"
	case w < 64:
		return "33-63"
	case w == 64:
		return "64"
	case w <= 128:
		return "65-128"
	}
	return "129-130"
}

// ------------------------------------------------- (c) testsuite vectors

var c03Whitespace = regexp.MustCompilePOSIX(`[[:space:]]+`)

func c03Reverse(val string) string {
	var prefix string
	if strings.HasPrefix(val, "0x") {
		val = val[2:]
		prefix = "0x"
	}
	var result string
	for i := len(val) - 2; i >= 0; i -= 2 {
		result += val[i : i+2]
	}
	if len(val)%2 == 1 {
		result += val[0:1]
	}
	return prefix + result
}

type c03TSReplay struct {
	File   string `json:"file"`
	Test   int    `json:"test"`
	Vector string `json:"vector"`
	What   string `json:"what"`
}

// c03Testsuite runs every @Test vector of /repo/testsuite the way
// /repo/testsuite_test.go does (oracle only; no model is involved).
func c03Testsuite(c *Ctx) error {
	root := "/repo/testsuite"
	emptied := map[string]bool{}
	if b, err := os.ReadFile("/root/.vp/EMPTIED_FILES.txt"); err == nil {
		for _, l := range strings.Fields(string(b)) {
			emptied[l] = true
		}
	}
	var files []string
	filepath.WalkDir(root, func(path string, d fs.DirEntry, err error) error {
		if err == nil && !d.IsDir() && compiler.IsFilename(path) {
			files = append(files, path)
		}
		return nil
	})
	sort.Strings(files)
	nVec, nFiles, nSkipped := 0, 0, 0
	for _, file := range files {
		rel := strings.TrimPrefix(file, "/repo/")
		fail := func(test int, vector, what string) {
			c.Fail("c03:testsuite:"+rel, what, c03TSReplay{File: rel, Test: test, Vector: vector, What: what})
		}
		src, _ := os.ReadFile(file)
		needsEmptied := false
		for e := range emptied {
			// pkg/crypto/sha512/sha512.circ -> programs importing crypto/sha512
			dir := filepath.Dir(strings.TrimPrefix(e, "pkg/"))
			if strings.Contains(string(src), `"`+dir+`"`) {
				needsEmptied = true
			}
		}
		if needsEmptied {
			nSkipped++
			c.Hist("testsuite:skipped-emptied-dependency")
			c.Note("testsuite: %s skipped: emptied dependency", rel)
			continue
		}
		func() {
			defer func() {
				if r := recover(); r != nil {
					fail(-1, "", "panic: "+fmt.Sprint(r))
				}
			}()
			params := utils.NewParams()
			defer params.Close()
			params.MPCLCErrorLoc = true
			cc := compiler.New(params)
			pkg, err := cc.ParseFile(file)
			if err != nil {
				fail(-1, "", "parse: "+err.Error())
				return
			}
			main, ok := pkg.Functions["main"]
			if !ok {
				fail(-1, "", "no main function")
				return
			}
			base := 10
			lsb := false
			testNumber := 0
			heavy := false
			for _, annotation := range main.Annotations {
				if strings.HasPrefix(strings.TrimSpace(annotation), "@heavy") {
					heavy = true
				}
			}
			if heavy && !c.Thorough() {
				c.Hist("testsuite:heavy-skipped-in-quick-tier")
				return
			}
			nFiles++
			for _, annotation := range main.Annotations {
				ann := strings.TrimSpace(annotation)
				if strings.HasPrefix(ann, "@Hex") {
					base = 16
					continue
				}
				if strings.HasPrefix(ann, "@LSB") {
					lsb = true
					continue
				}
				if !strings.HasPrefix(ann, "@Test ") {
					continue
				}
				parts := c03Whitespace.Split(ann, -1)
				var inputValues [][]string
				var inputs, outputs []*big.Int
				sep := false
				bad := false
				for i := 1; i < len(parts); i++ {
					part := parts[i]
					if part == "=" {
						sep = true
						continue
					}
					var iv []string
					for _, input := range strings.Split(part, ",") {
						var v *big.Int
						if input != "_" {
							v = new(big.Int)
							if base == 16 && lsb {
								input = c03Reverse(input)
							}
							if _, ok := v.SetString(input, 0); !ok {
								fail(testNumber, ann, "invalid argument "+input)
								bad = true
							}
						}
						if sep {
							outputs = append(outputs, v)
						} else {
							iv = append(iv, input)
							inputs = append(inputs, v)
						}
					}
					inputValues = append(inputValues, iv)
				}
				if bad {
					return
				}
				var inputSizes [][]int
				for _, iv := range inputValues {
					sizes, err := circuit.InputSizes(iv)
					if err != nil {
						fail(testNumber, ann, "invalid inputs: "+err.Error())
						return
					}
					inputSizes = append(inputSizes, sizes)
				}
				circ, _, err := cc.CompileFile(file, inputSizes)
				if err != nil {
					if strings.Contains(err.Error(), "sha512") {
						nSkipped++
						c.Hist("testsuite:skipped-emptied-dependency")
						return
					}
					fail(testNumber, ann, "compile: "+err.Error())
					return
				}
				results, err := circ.Compute(inputs)
				if err != nil {
					fail(testNumber, ann, "compute: "+err.Error())
					return
				}
				nVec++
				c.Eval(rel+"|"+ann, true)
				c.Hist("testsuite:vectors")
				if len(results) != len(outputs) {
					fail(testNumber, ann, fmt.Sprintf("unexpected return values: got %v, expected %v", results, outputs))
					return
				}
				for idx := range results {
					out := circ.Outputs[idx]
					if outputs[idx] == nil {
						continue
					}
					rr := mpc.Result(new(big.Int).Set(results[idx]), out)
					re := mpc.Result(new(big.Int).Set(outputs[idx]), out)
					if fmt.Sprintf("%v", rr) != fmt.Sprintf("%v", re) {
						fail(testNumber, ann, fmt.Sprintf("result %d mismatch: got %v, expected %v", idx, rr, re))
					}
				}
				testNumber++
			}
		}()
	}
	c.Note("testsuite: %d files, %d @Test vectors run, %d files skipped (emptied dependency)", nFiles, nVec, nSkipped)
	return nil
}
