package main

// C15, chi stream family (model: coq/theories/OT/ChiStream.v, case kind 2).
//
// The coefficient x of the real IKNPReceiver.Receive(b, res, true) is
//     x = xor_{i: b_i} chi_i  xor  xor_{r: bcv_r} chi_{n+r}
// so with scripted receiver randomness (b0, b1, seed drawn through the
// receiver's io.Reader) one-hot choices expose every single coefficient the
// real prgLabels/block loop hands to row i: b = e_i, b0 = b1 = 0 gives
// x = chi_i, b = 0, b0 = e_r gives x = chi_{n+r}.  The model gets only
// (n, b, b0, b1, seed) and expands the seed itself (AES key schedule, CTR
// counter per block, Label.SetBytes, in-place chi array of 1024 labels).

import (
	"fmt"

	"github.com/markkurossi/mpc/ot"
)

// scriptRand hands out RNG bytes, except that the 16-byte reads number
// from.. are answered with the scripted labels.
type scriptRand struct {
	r      *RNG
	reads  int
	from   int
	script []ot.Label
}

func (s *scriptRand) Read(p []byte) (int, error) {
	if len(p) != 16 {
		return s.r.Read(p)
	}
	k := s.reads - s.from
	s.reads++
	if k >= 0 && k < len(s.script) {
		var ld ot.LabelData
		copy(p, s.script[k].Bytes(&ld))
		return 16, nil
	}
	return s.r.Read(p)
}

func c15OneHot(i int) ot.Label {
	if i < 0 {
		return ot.Label{}
	}
	return c15Bit(i)
}

func c15ChiCase(c *Ctx, r *RNG, n int, b []bool, b0, b1, seed ot.Label, shape string) {
	rec := &c15RecIO{}
	rnd := &scriptRand{r: r.Fork(), from: 2 * ot.K, script: []ot.Label{b0, b1, seed}}
	rcv, err := ot.NewIKNPReceiver(&c15Base{}, rec, rnd)
	if err != nil {
		c.Fail("c15:chi-stream:setup-failed", err.Error(), map[string]int{"n": n})
		return
	}
	if err := rcv.Receive(b, make([]ot.Label, n), true); err != nil {
		c.Fail("c15:chi-stream:honest-abort", err.Error(), map[string]int{"n": n})
		return
	}
	nm := len(rec.msgs)
	if nm < 4 || !rec.msgs[nm-4].isLabel || rec.msgs[nm-4].label != seed || !rec.msgs[nm-3].isLabel {
		c.Fail("c15:chi-stream:transcript-shape", fmt.Sprintf("n=%d: %d messages, seed on the wire differs from the scripted label", n, nm), map[string]int{"n": n})
		return
	}
	x := rec.msgs[nm-3].label

	// the property of this family on the implementation, independent of the
	// model: x is the xor of the coefficients number i (choice i set) and
	// n+r (check choice r set) of the AES-CTR stream of the seed
	chi := c15Chi(seed, n+256)
	var want ot.Label
	for i, f := range b {
		if f {
			want.Xor(chi[i])
		}
	}
	for rr := 0; rr < 256; rr++ {
		var bit uint
		if rr < 128 {
			bit = b0.Bit(rr)
		} else {
			bit = b1.Bit(rr - 128)
		}
		if bit == 1 {
			want.Xor(chi[n+rr])
		}
	}
	if !x.Equal(want) {
		c.Fail("c15:chi-stream:"+shape+":coefficient-index", fmt.Sprintf("n=%d: x=%v, expected %v from coefficients i / n+r of the seed's stream", n, x, want),
			map[string]interface{}{"n": n, "shape": shape, "seed": c15Poly(seed).Text(16)})
	}
	nontrivial := !x.Equal(ot.Label{})
	c.Eval(fmt.Sprintf("chi-stream:%s:n=%d:%s:%s:%s", shape, n, c15Poly(seed).Text(16), c15Poly(b0).Text(16), c15Poly(x).Text(16)), nontrivial)
	c.Hist("chi-stream:" + shape)
	c.Case(L(I(2), I(n), Bits(b), polySX(b0), polySX(b1), polySX(seed)), L(polySX(x)))
}

func c15ChiStream(c *Ctx) {
	r := c.rng.Fork()
	// one-hot payload rows: x = chi_i (first/last row, both sides of the in-place block
	// boundaries 1024 and 2048).  The model runs AES itself (about 1 ms per block in the
	// extracted code), so the quick tier keeps the large sizes few.
	type rowsOf struct {
		n    int
		rows []int
	}
	plan := []rowsOf{{1, []int{0}}, {2, []int{1}}, {9, []int{0, 8}}, {1023, []int{1022}}, {1024, []int{1023}},
		{1025, []int{0, 1023, 1024}}, {2049, []int{1024, 2047, 2048}}}
	if c.Thorough() {
		for _, n := range []int{100, 1023, 1024, 1025, 2047, 2048, 2049, 3071, 3072, 3073, 4097} {
			plan = append(plan, rowsOf{n, []int{0, n - 1, n / 2, 1023, 1024, n - 1024, n - 1025, 2047, 2048, 3071, 3072}})
		}
	}
	for _, pl := range plan {
		n := pl.n
		seen := map[int]bool{}
		seed := c15RandLabel(r)
		for _, i := range pl.rows {
			if i < 0 || i >= n || seen[i] {
				continue
			}
			seen[i] = true
			b := make([]bool, n)
			b[i] = true
			c15ChiCase(c, r, n, b, ot.Label{}, ot.Label{}, seed, "one-hot-row")
		}
	}
	// one-hot check rows: x = chi_{n+r}, incl. n = 0 and block boundaries
	type chkOf struct {
		n  int
		rr []int
	}
	cplan := []chkOf{{0, []int{0, 127, 128, 255}}, {1, []int{0, 255}}, {7, []int{128}}, {1024, []int{0, 255}}, {1025, []int{0, 128}}}
	if c.Thorough() {
		for _, n := range []int{768, 769, 1023, 1024, 1025, 2048} {
			cplan = append(cplan, chkOf{n, []int{0, 127, 128, 255}})
		}
	}
	for _, pl := range cplan {
		n := pl.n
		seed := c15RandLabel(r)
		for _, rr := range pl.rr {
			b0, b1 := ot.Label{}, ot.Label{}
			if rr < 128 {
				b0 = c15OneHot(rr)
			} else {
				b1 = c15OneHot(rr - 128)
			}
			c15ChiCase(c, r, n, make([]bool, n), b0, b1, seed, "one-hot-check-row")
		}
	}
	// random choices, random check choices
	nr := c.N(10, 300)
	for k := 0; k < nr; k++ {
		n := r.Range(0, 64)
		if k%10 == 9 {
			n = []int{1023, 1024, 1025, 1500, 2048, 2049}[r.Intn(6)]
		}
		c15ChiCase(c, r, n, c15Choices(r, n), c15RandLabel(r), c15RandLabel(r), c15RandLabel(r), "random")
	}
}
