package main

// The value table of ssa.WireAllocator driven directly (kind 2 cases):
// Allocated / AssignedIDs / GCWires on values whose keys are chosen — with the
// real hash (VerifC05Bucket of compiler/ssa/verif_export_c05.go) — to COLLIDE:
// chains of length 1..5, the dying value at every chain position, lookups that
// trigger the move-to-front rule.  Observed per operation: whether the value
// was in its chain before, and the chain (head first) after
// (VerifC05Chain).  Oracle on the implementation, independent of the model: at
// the end of a sequence exactly the values that were allocated and not
// collected are in the table, each still with the wire ids it was given.

import (
	"fmt"

	"github.com/markkurossi/mpc/circuit"
	"github.com/markkurossi/mpc/compiler/circuits"
	"github.com/markkurossi/mpc/compiler/ssa"
	"github.com/markkurossi/mpc/types"
)

type c05WOp struct {
	op  int // 0 Allocated, 1 AssignedIDs, 2 GCWires
	key int
}

// c05CollidingFamilies: buckets with at least `want` colliding value keys.
func c05CollidingFamilies(want int) [][]ssa.Value {
	walloc := ssa.NewWireAllocator(circuits.NewAllocator())
	byBucket := map[int][]ssa.Value{}
	var order []int
	add := func(v ssa.Value) {
		b := walloc.VerifC05Bucket(v)
		if len(byBucket[b]) == 0 {
			order = append(order, b)
		}
		byBucket[b] = append(byBucket[b], v)
	}
	for _, name := range []string{"a", "c", "e", "g", "i", "k", "x", "sum"} {
		for ver := 0; ver < 2; ver++ {
			add(ssa.Value{Name: name, Scope: 1, Version: int32(ver)})
		}
	}
	for ver := 0; ver < 40000; ver++ {
		add(ssa.Value{Name: "%_", Scope: 0, Version: int32(ver)})
	}
	var fams [][]ssa.Value
	for _, b := range order {
		if len(byBucket[b]) >= want {
			fams = append(fams, byBucket[b])
		}
	}
	return fams
}

func c05ValString(v ssa.Value) string { return fmt.Sprintf("%s{%d,%d}", v.Name, v.Scope, v.Version) }

// c05RunWalloc executes one operation sequence on a fresh real allocator.
func c05RunWalloc(c *Ctx, caseNo int, vals []ssa.Value, ops []c05WOp, label string) {
	walloc := ssa.NewWireAllocator(circuits.NewAllocator())
	keyOf := func(v ssa.Value) int {
		for i := range vals {
			if vals[i].Equal(&v) {
				return i
			}
		}
		return -1
	}
	chain := func(v ssa.Value) []int {
		var r []int
		for _, k := range walloc.VerifC05Chain(walloc.VerifC05Bucket(v)) {
			r = append(r, keyOf(k))
		}
		return r
	}
	inChain := func(v ssa.Value) bool {
		for _, k := range walloc.VerifC05Chain(walloc.VerifC05Bucket(v)) {
			if k.Equal(&v) {
				return true
			}
		}
		return false
	}
	live := map[int][]circuit.Wire{}
	var hm, opsSX, obs []SX
	for i, v := range vals {
		hm = append(hm, L(I(i), I(walloc.VerifC05Bucket(v))))
	}
	var trace []string
	fail := func(key, what string) {
		c.Fail(key, what, map[string]interface{}{"seed": c.Seed, "case": caseNo, "sequence": label,
			"operations": trace, "values": func() []string {
				var s []string
				for _, v := range vals {
					s = append(s, c05ValString(v))
				}
				return s
			}()})
	}
	failed := false
	for _, o := range ops {
		v := vals[o.key]
		v.Type = types.Info{Type: types.TUint, IsConcrete: true, Bits: types.Size(1 + o.key%7)}
		present := inChain(v)
		func() {
			defer func() {
				if r := recover(); r != nil && !failed {
					failed = true
					trace = append(trace, fmt.Sprintf("PANIC %v", r))
					fail("c05:walloc:hash-chain:panic", fmt.Sprint(r))
				}
			}()
			switch o.op {
			case 0:
				trace = append(trace, "Allocated "+c05ValString(v))
				got := walloc.Allocated(v)
				_, want := live[o.key]
				if got != want && !failed {
					failed = true
					fail("c05:walloc:hash-chain:value-lost-or-changed",
						fmt.Sprintf("Allocated(%s) = %v, but the value was allocated and not collected: %v", c05ValString(v), got, want))
				}
			case 1:
				trace = append(trace, "AssignedIDs "+c05ValString(v))
				ids, err := walloc.AssignedIDs(v, v.Type.Bits)
				if err != nil {
					panic(err)
				}
				if old, ok := live[o.key]; ok {
					if fmt.Sprint(old) != fmt.Sprint(ids) && !failed {
						failed = true
						fail("c05:walloc:hash-chain:value-lost-or-changed",
							fmt.Sprintf("AssignedIDs(%s) = %v, earlier %v", c05ValString(v), ids, old))
					}
				} else {
					live[o.key] = append([]circuit.Wire(nil), ids...)
				}
			case 2:
				trace = append(trace, "GCWires "+c05ValString(v))
				if _, ok := live[o.key]; !ok {
					return // never collect an unknown value (GCWires panics by contract)
				}
				walloc.GCWires(v)
				delete(live, o.key)
			}
		}()
		opsSX = append(opsSX, L(I(o.op), I(o.key)))
		obs = append(obs, L(Bool(present), Ints(chain(v))))
	}
	// final sweep: exactly the live values are in the table, with their ids
	if !failed {
		for i, v := range vals {
			ids, isLive := live[i]
			if inChain(v) != isLive {
				fail("c05:walloc:hash-chain:value-lost-or-changed",
					fmt.Sprintf("after the sequence %s is in the table: %v, expected %v", c05ValString(v), inChain(v), isLive))
				failed = true
				break
			}
			if isLive {
				v.Type = types.Info{Type: types.TUint, IsConcrete: true, Bits: types.Size(1 + i%7)}
				got, _ := walloc.AssignedIDs(v, v.Type.Bits)
				if fmt.Sprint(got) != fmt.Sprint(ids) {
					fail("c05:walloc:hash-chain:value-lost-or-changed",
						fmt.Sprintf("after the sequence AssignedIDs(%s) = %v, it was given %v", c05ValString(v), got, ids))
					failed = true
					break
				}
			}
		}
	}
	c.Case(L(I(2), L(hm...), L(opsSX...)), L(I(0), L(obs...)))
	c.Eval(fmt.Sprintf("walloc|%s|%v", label, ops), len(ops) > 2)
	c.Hist("walloc:" + label)
}

// c05Walloc: directed and random operation sequences.
func c05Walloc(c *Ctx, caseNo *int) error {
	fams := c05CollidingFamilies(6)
	if len(fams) == 0 {
		return fmt.Errorf("no colliding value keys found")
	}
	r := c.rng.Fork()
	nfam := c.N(2, 12)
	for f := 0; f < nfam; f++ {
		fam := fams[r.Intn(len(fams))]
		// the family plus two values of other buckets
		vals := append([]ssa.Value(nil), fam[:6]...)
		vals = append(vals, ssa.Value{Name: "other", Scope: 2, Version: 0}, ssa.Value{Name: "%_", Scope: 0, Version: int32(1 + r.Intn(50))})
		// directed: chain length L, the dying value at chain position pos, with
		// 0..2 lookups before (move-to-front of deep entries)
		for L := 1; L <= 5; L++ {
			for pos := 1; pos <= L; pos++ {
				for nl := 0; nl <= 2; nl++ {
					if nl > 0 && (L < 3 || (f > 0 && !c.Thorough())) {
						continue
					}
					var ops []c05WOp
					// chain after these allocations: keys L-1 ... 0 (head first)
					order := make([]int, 0, L)
					for k := 0; k < L; k++ {
						ops = append(ops, c05WOp{1, k})
						order = append([]int{k}, order...)
					}
					for j := 0; j < nl; j++ {
						p := r.Intn(L)
						k := order[p]
						ops = append(ops, c05WOp{r.Intn(2), k})
						if p >= 2 { // position 3 or deeper: moved to the front
							order = append([]int{k}, append(append([]int(nil), order[:p]...), order[p+1:]...)...)
						}
					}
					dying := order[pos-1]
					ops = append(ops, c05WOp{2, dying})
					for k := 0; k < L; k++ {
						ops = append(ops, c05WOp{0, k})
					}
					// re-allocate the collected value and use the others again
					ops = append(ops, c05WOp{1, dying})
					for k := 0; k < L; k++ {
						ops = append(ops, c05WOp{1, k})
					}
					c05RunWalloc(c, *caseNo, vals, ops, fmt.Sprintf("directed:len%d:pos%d", L, pos))
					*caseNo++
				}
			}
		}
		// random sequences
		for q := 0; q < c.N(6, 40); q++ {
			var ops []c05WOp
			n := 10 + r.Intn(40)
			for j := 0; j < n; j++ {
				k := r.Intn(len(vals))
				if r.Intn(4) > 0 {
					k = r.Intn(6)
				}
				ops = append(ops, c05WOp{[]int{0, 1, 1, 2}[r.Intn(4)], k})
			}
			c05RunWalloc(c, *caseNo, vals, ops, "random")
			*caseNo++
		}
	}
	return nil
}
