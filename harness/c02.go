package main

import (
	"fmt"
	"io"
	"math/big"
	"sync"
	"sync/atomic"
	"time"

	"github.com/markkurossi/mpc/circuit"
	"github.com/markkurossi/mpc/compiler"
	"github.com/markkurossi/mpc/compiler/utils"
	"github.com/markkurossi/mpc/env"
	"github.com/markkurossi/mpc/ot"
	"github.com/markkurossi/mpc/p2p"
)

func init() { register("c02", runC02) }

type otMaker struct {
	name string
	mk   func(r *RNG) ot.OT
}

var otKinds = []otMaker{
	{"co", func(r *RNG) ot.OT { return ot.NewCO(r) }},
	{"cot", func(r *RNG) ot.OT { return ot.NewCOT(ot.NewCO(r.Fork()), r, false, false) }},
	{"cot-malicious", func(r *RNG) ot.OT { return ot.NewCOT(ot.NewCO(r.Fork()), r, true, false) }},
	{"rsa", func(r *RNG) ot.OT { return ot.NewRSA(r, 1024) }},
}

type sessionResult struct {
	gRes, eRes                 []*big.Int
	gErr, eErr                 error
	g2e, e2g                   []byte
	g2eDelivered, e2gDelivered []byte
	stalled                    bool
}

// runSession runs the real Garbler and Evaluator over an in-memory transport.
func runSession(circ *circuit.Circuit, gIn, eIn *big.Int, grand io.Reader, otG, otE ot.OT,
	frag int, rng *RNG, tweak func(g2e, e2g *fragQueue), timeout time.Duration) *sessionResult {

	ga, ea, g2e, e2g := newDuplexPair(rng, frag)
	if tweak != nil {
		tweak(g2e, e2g)
	}
	gConn := p2p.NewConn(ga)
	eConn := p2p.NewConn(ea)
	res := &sessionResult{}
	var gDone, eDone atomic.Bool
	var wg sync.WaitGroup
	wg.Add(2)
	go func() {
		defer wg.Done()
		defer func() {
			if r := recover(); r != nil {
				res.gErr = fmt.Errorf("panic: %v", r)
				gDone.Store(true)
			}
		}()
		res.gRes, res.gErr = circuit.Garbler(&env.Config{Rand: grand}, gConn, otG, circ, gIn, false)
		gDone.Store(true)
	}()
	go func() {
		defer wg.Done()
		defer func() {
			if r := recover(); r != nil {
				res.eErr = fmt.Errorf("panic: %v", r)
				eDone.Store(true)
			}
		}()
		res.eRes, res.eErr = circuit.Evaluator(eConn, otE, circ, eIn, false)
		eDone.Store(true)
	}()
	done := make(chan struct{})
	go func() { wg.Wait(); close(done) }()
	// watchdog: abort on timeout, or when both parties are blocked reading
	// from empty queues for 30 consecutive polls (protocol-level deadlock)
	deadline := time.Now().Add(timeout)
	idle := 0
loop:
	for {
		select {
		case <-done:
			break loop
		case <-time.After(2 * time.Millisecond):
		}
		if (gDone.Load() || e2g.idle()) && (eDone.Load() || g2e.idle()) {
			idle++
		} else {
			idle = 0
		}
		if idle >= 30 || time.Now().After(deadline) {
			res.stalled = true
			ga.Close()
			ea.Close()
			<-done
			break loop
		}
	}
	// release the connections' writer goroutines and buffers
	ga.Close()
	ea.Close()
	go gConn.Close()
	go eConn.Close()
	g2e.mu.Lock()
	res.g2e = append([]byte(nil), g2e.log...)
	res.g2eDelivered = append([]byte(nil), g2e.delivered...)
	g2e.mu.Unlock()
	e2g.mu.Lock()
	res.e2g = append([]byte(nil), e2g.log...)
	res.e2gDelivered = append([]byte(nil), e2g.delivered...)
	e2g.mu.Unlock()
	return res
}

func bitsToBig(b []bool) *big.Int {
	v := new(big.Int)
	for i, x := range b {
		if x {
			v.SetBit(v, i, 1)
		}
	}
	return v
}

// negRep returns v - 2^n when bit n-1 of v is set (the negative number with the same low n
// bits in two's complement), v otherwise.
func negRep(v *big.Int, n int) *big.Int {
	if n == 0 || v.Bit(n-1) == 0 {
		return v
	}
	return new(big.Int).Sub(v, new(big.Int).Lsh(big.NewInt(1), uint(n)))
}

func bigsSX(v []*big.Int) SX {
	l := make([]SX, len(v))
	for i, x := range v {
		l[i] = Big(x)
	}
	return L(l...)
}

func bigsString(v []*big.Int) string {
	s := ""
	for i, x := range v {
		if i > 0 {
			s += ","
		}
		s += x.Text(16)
	}
	return s
}

func outSizes(c *circuit.Circuit) []int {
	var r []int
	for _, o := range c.Outputs {
		r = append(r, int(o.Type.Bits))
	}
	return r
}

type c02Replay struct {
	Seed    uint64 `json:"seed"`
	Case    int    `json:"case"`
	OT      string `json:"ot"`
	Frag    int    `json:"max_fragment"`
	Circuit string `json:"circuit"`
	X       string `json:"x"`
	Y       string `json:"y"`
	GRes    string `json:"garbler_result"`
	ERes    string `json:"evaluator_result"`
	Want    string `json:"want"`
	GErr    string `json:"garbler_error"`
	EErr    string `json:"evaluator_error"`
}

// compiled two-party MPCL programs (multi-output, 1-bit and odd widths, unequal input widths)
var c02Programs = []string{
	"package main\nfunc main(a, b uint8) uint8 {\n\treturn a + b\n}\n",
	"package main\nfunc main(a uint5, b uint3) (uint6, bool) {\n\treturn uint6(a) + uint6(b), uint5(b) < a\n}\n",
	"package main\nfunc main(a, b int7) int7 {\n\tif a > b {\n\t\treturn a - b\n\t}\n\treturn b - a\n}\n",
	"package main\nfunc main(a bool, b uint1) (bool, uint1, bool) {\n\treturn a && b == 1, b, !a\n}\n",
	"package main\nfunc main(a, b uint6) (uint6, uint6, uint6) {\n\treturn a * b, a ^ b, a & b\n}\n",
	"package main\nfunc main(a uint9, b uint4) uint9 {\n\treturn a >> 2 | uint9(b)\n}\n",
	// outputs wider than a machine word that are not the last output (IO.Split)
	"package main\nfunc main(a, b uint64) (uint128, bool, uint70) {\n\treturn uint128(a)<<64 | uint128(b), a > b, uint70(a) + uint70(b)\n}\n",
	"package main\nfunc main(a, b int32) (int65, int32) {\n\treturn int65(a) - int65(b), a + b\n}\n",
}

func compileC02(idx int) (*circuit.Circuit, error) {
	params := utils.NewParams()
	defer params.Close()
	circ, _, err := compiler.New(params).Compile(c02Programs[idx%len(c02Programs)], nil)
	return circ, err
}

func runC02(c *Ctx) error {
	n := c.N(64, 2000)
	frags := []int{0, 1, 3, 17, 64, 1000}
	for i := 0; i < n; i++ {
		r := c.rng.Fork()
		opts := GenOpts{MinIn: 2, MaxIn: 12, MinGates: 1, MaxGates: 50, MaxOut: 9, Overwrite: true, TwoParty: true, AllowEmptyParty: true}
		if i%8 == 7 {
			opts.MinGates, opts.MaxGates = 80, 160
		}
		wide := i%16 == 11
		if wide {
			// an evaluator input wider than the OT implementations' internal block sizes
			// (IKNP chunks of 512 rows, KOS check blocks of 1024): the second and later
			// blocks of every batched loop run only here
			ni := []int{1030, 1100, 1290, 1040}[(i/16)%4]
			opts = GenOpts{MinIn: ni, MaxIn: ni, MinGates: 60, MaxGates: 120, MaxOut: 9, Overwrite: true, TwoParty: true}
		}
		circ := GenCircuit(r, opts)
		if wide {
			ni := circ.Inputs.Size()
			a := 3 + (i/16)%5
			circ.Inputs = circuit.IO{{Name: "a", Type: uintInfo(a)}, {Name: "b", Type: uintInfo(ni - a)}}
			c.Hist("circuit:wide-evaluator-input")
		}
		if i%8 == 5 {
			cc, err := compileC02(i / 8)
			if err != nil {
				return fmt.Errorf("compile: %v", err)
			}
			circ = cc
			c.Hist("circuit:compiled-mpcl")
		} else {
			c.Hist("circuit:generated")
		}
		n0 := int(circ.Inputs[0].Type.Bits)
		n1 := int(circ.Inputs[1].Type.Bits)
		kind := otKinds[i%len(otKinds)]
		if kind.name == "rsa" && !c.Thorough() && i%16 != 3 {
			kind = otKinds[(i/4)%3]
		}
		if wide {
			kind = otKinds[(i/16)%3] // CO, COT, COT-malicious in turn (a thousand RSA transfers are too slow)
			if (i/16)%2 == 0 {
				kind = otKinds[2]
			}
		}
		x := make([]bool, n0)
		y := make([]bool, n1)
		for k := range x {
			x[k] = r.Bool()
		}
		for k := range y {
			y[k] = r.Bool()
		}
		switch i % 5 {
		case 1:
			for k := range y {
				y[k] = true
			}
		case 2:
			for k := range y {
				y[k] = false
			}
		}
		frag := frags[(i/len(otKinds))%len(frags)]
		grand := &blockLog{r: r.Fork(), skipKey: true}
		gIn, eIn := bitsToBig(x), bitsToBig(y)
		if i%4 == 2 {
			// the same bits given as a NEGATIVE big.Int (what IOArg.Parse returns for a negative
			// decimal such as "-5" of a single intN argument): every consumer must read it with
			// Bit(i), i.e. in two's complement over the argument's width
			gIn, eIn = negRep(gIn, n0), negRep(eIn, n1)
			c.Hist("inputs:negative-big-int-representation")
		}
		res := runSession(circ, gIn, eIn, grand, kind.mk(r.Fork()), kind.mk(r.Fork()),
			frag, r.Fork(), nil, 60*time.Second)
		c02Live(c, circ, x, y, kind, r.Fork()) // flush-discipline correspondence (c02live.go)
		c02Abort(c, r.Fork())                  // error exits, once per run (c02abort.go)
		xy := append(append([]bool(nil), x...), y...)
		want := JoinBig(circ, TruthEval(circ, xy))
		bad := ""
		switch {
		case res.stalled:
			bad = "session stalled"
		case res.gErr != nil:
			bad = "garbler error: " + res.gErr.Error()
		case res.eErr != nil:
			bad = "evaluator error: " + res.eErr.Error()
		case bigsString(res.gRes) != bigsString(want):
			bad = "garbler result differs from plain evaluation"
		case bigsString(res.eRes) != bigsString(want):
			bad = "evaluator result differs from plain evaluation"
		}
		c.Hist("ot:" + kind.name)
		c.Hist(fmt.Sprintf("maxfrag:%d", frag))
		c.Hist(fmt.Sprintf("n1:%d", n1))
		if n0 == 0 || n1 == 0 {
			c.Hist("party-with-zero-input-bits")
		}
		c.Eval(fmt.Sprintf("%s|%s|%s|%s|%d", circuitText(circ), bitsString(x), bitsString(y), kind.name, frag),
			circ.Stats[circuit.AND]+circ.Stats[circuit.OR]+circ.Stats[circuit.INV] > 0)
		if bad != "" {
			rp := c02Replay{Seed: c.Seed, Case: i, OT: kind.name, Frag: frag, Circuit: circuitText(circ),
				X: bitsString(x), Y: bitsString(y), GRes: bigsString(res.gRes), ERes: bigsString(res.eRes), Want: bigsString(want)}
			if res.gErr != nil {
				rp.GErr = res.gErr.Error()
			}
			if res.eErr != nil {
				rp.EErr = res.eErr.Error()
			}
			c.Fail("c02:"+kind.name+":"+bad, bad, rp)
			continue
		}
		// correspondence: prefix of the garbler->evaluator stream up to the OT segment
		plen := 4 + 32 + 4
		for _, g := range circ.Gates {
			switch g.Op {
			case circuit.AND:
				plen += 4 + 32
			case circuit.OR:
				plen += 4 + 48
			case circuit.INV:
				plen += 4 + 16
			default:
				plen += 4
			}
		}
		plen += 16 * n0
		if len(res.g2e) < plen {
			c.Fail("c02:short-transcript", "garbler->evaluator stream shorter than the first flight", nil)
			continue
		}
		pre := append([]byte{1}, res.g2e[:plen]...)
		key := res.g2e[4:36]
		dims, gs := CircuitSX(circ)
		in := L(Bytes(key), dims, gs, L(I(n0), I(n1)), Ints(outSizes(circ)), Labels(grand.blocks), Bits(x), Bits(y))
		obs := L(I(0), bigsSX(res.gRes), bigsSX(res.eRes), Big(new(big.Int).SetBytes(pre)))
		c.Case(in, obs)
		if i < 3 {
			c.Sample(map[string]string{"ot": kind.name, "circuit": circuitText(circ), "x": bitsString(x), "y": bitsString(y),
				"result": bigsString(res.gRes), "max_fragment": fmt.Sprint(frag)})
		}
	}
	if err := c02LongLivedOT(c); err != nil {
		return err
	}
	if err := c02Doors(c); err != nil { // c02doors.go: transports, call patterns, boundaries (oracle only)
		return err
	}
	if err := c02CLI(c); err != nil {
		return err
	}
	return c02CLIMore(c) // c02cli.go: flags, circuit files, environment, a peer that goes away
}

// c02LongLivedOT: one OT object per PEER, kept over several sessions (each session on a new
// connection; Garbler/Evaluator re-initialise the OT as sender/receiver at their start), with
// the peers taking turns as garbler and evaluator: A garbles, B garbles, A garbles twice, B
// garbles.  Every session must end with both parties holding f(x, y).
func c02LongLivedOT(c *Ctx) error {
	// CO and RSA objects can be initialised again, in either role; an ot.COT object serves one
	// initialisation only ("already initialized"), so it cannot outlive a session
	kinds := []otMaker{otKinds[0], otKinds[3]}
	rounds := 1
	if c.Thorough() {
		rounds = 12
	}
	for round := 0; round < rounds; round++ {
		for _, kind := range kinds {
			r := c.rng.Fork()
			otA, otB := kind.mk(r.Fork()), kind.mk(r.Fork())
			roles := []bool{true, false, true, true, false} // true: A garbles
			for si, aGarbles := range roles {
				circ := GenCircuit(r, GenOpts{MinIn: 2, MaxIn: 12, MinGates: 4, MaxGates: 40, MaxOut: 6, Overwrite: true, TwoParty: true})
				n0, n1 := int(circ.Inputs[0].Type.Bits), int(circ.Inputs[1].Type.Bits)
				xy := make([]bool, n0+n1)
				for k := range xy {
					xy[k] = r.Bool()
				}
				otG, otE := otA, otB
				if !aGarbles {
					otG, otE = otB, otA
				}
				res := runSession(circ, bitsToBig(xy[:n0]), bitsToBig(xy[n0:]), &blockLog{r: r.Fork(), skipKey: true}, otG, otE, 0, r.Fork(), nil, 60*time.Second)
				want := JoinBig(circ, TruthEval(circ, xy))
				bad := ""
				switch {
				case res.stalled:
					bad = "session stalled"
				case res.gErr != nil:
					bad = "garbler error: " + res.gErr.Error()
				case res.eErr != nil:
					bad = "evaluator error: " + res.eErr.Error()
				case bigsString(res.gRes) != bigsString(want):
					bad = "garbler result differs from plain evaluation"
				case bigsString(res.eRes) != bigsString(want):
					bad = "evaluator result differs from plain evaluation"
				}
				c.Hist("long-lived-ot:" + kind.name)
				c.Eval(fmt.Sprintf("longlived|%s|%d|%d|%s|%s", kind.name, round, si, circuitText(circ), bitsString(xy)), true)
				if bad != "" {
					rp := c02Replay{Seed: c.Seed, Case: si, OT: kind.name, Circuit: circuitText(circ),
						X: bitsString(xy[:n0]), Y: bitsString(xy[n0:]), GRes: bigsString(res.gRes), ERes: bigsString(res.eRes), Want: bigsString(want)}
					if res.gErr != nil {
						rp.GErr = res.gErr.Error()
					}
					if res.eErr != nil {
						rp.EErr = res.eErr.Error()
					}
					c.Fail("c02:long-lived-ot:"+kind.name+":"+bad,
						fmt.Sprintf("session %d of 5 on one pair of long-lived %s OT objects (roles so far, true = peer A garbles: %v): %s", si+1, kind.name, roles[:si+1], bad), rp)
					break
				}
			}
		}
	}
	return nil
}

// JoinBig splits flat output bits into per-output values.
func JoinBig(c *circuit.Circuit, bits []bool) []*big.Int {
	var res []*big.Int
	ofs := 0
	for _, o := range c.Outputs {
		v := new(big.Int)
		for b := 0; b < int(o.Type.Bits); b++ {
			if bits[ofs] {
				v.SetBit(v, b, 1)
			}
			ofs++
		}
		res = append(res, v)
	}
	return res
}
