package main

// C12, fourth part: every WAY a constant operand reaches a folded operator.
//
// The Coq model (Lang/Fold.v) and the other c12 generators give the folder its
// operands as literals, casts T(a), -T(a) and x := E.  Here the same operator is
// applied to constants that arrive through every other binding form of the
// language; the run-time variant is always "a OP b" on inputs of the declared
// type.  These binding forms are OUTSIDE the Coq model (no correspondence cases):
// the theorems cover the folder given the operand constants, this generator ties
// every way operands get there by the fold == circuit oracle.
//
//   assign     var x T ; x = A              (LRValue.Set re-types the constant)
//   varinit    var x T = A
//   reassign   x := T(1) ; x = A
//   vianame    k := A ; var x T ; x = k     (x AND k are used afterwards)
//   pkgconst   const KA = A ; var x T ; x = KA
//   field      s.f = A (struct field)
//   element    arr[0] = A (array element)
//   argument   id(A) with func id(v T) T
//   result     ka() with func ka() T { return A }
//   opassign   var x T = A ; x OP= B
//   loopvar    for i := A; i <= A; i++ { x = i }

import (
	"fmt"
	"math/big"
	"os"
	"strings"
)

// The class "negative literal materialised into an intN wider than 32 bits" is a
// genuine defect of the unchanged tree (finding F6l, notes/C12-findings.md,
// known_findings.json): it is always generated; C12_GEN_NEGWIDE=0 switches it off
// for experiments only.
func c12GenNegWide() bool {
	return os.Getenv("C12_GEN_NEGWIDE") != "0"
}

// the untyped constant of the literal v as the compiler holds it: (container
// width, unsigned pattern).  -x is computed in the container of x and masked to
// it: -1 and 4294967295 are the SAME 32-bit constant 0xffffffff.
func c12LiteralPattern(v *big.Int) (int, *big.Int) {
	if v.Sign() >= 0 {
		return c12Cont(v), v
	}
	x := new(big.Int).Neg(v)
	c0 := c12Cont(x)
	p := new(big.Int).Mod(new(big.Int).Sub(c12Pow(c0), x), c12Pow(c0))
	return c12Cont(p), p
}

var c12BindForms = []string{"assign", "varinit", "reassign", "vianame", "pkgconst", "field", "element", "argument", "result", "opassign", "loopvar"}

// c12BindProgram renders the constant variant; ok=false when the form does not
// apply (opassign on comparisons, ...).
func c12BindProgram(form string, op, k, n int, a, b *big.Int) (src string, results int, ok bool) {
	T := c12TypeName(k, n)
	R := T
	if op >= 11 {
		R = "bool"
	}
	A, B := a.String(), b.String()
	expr := "x " + c12Ops[op] + " y"
	if op == 9 || op == 10 {
		expr = "x " + c12Ops[op] + " " + B // shift counts stay literal
	}
	hdr := "package main\n"
	mainSig := fmt.Sprintf("func main(a, b %s) %s {\n", T, R)
	bindY := func(how string) string {
		if op == 9 || op == 10 {
			return ""
		}
		return how
	}
	switch form {
	case "assign":
		return hdr + mainSig + "\tvar x " + T + "\n\tvar y " + T + "\n\tx = " + A + "\n\ty = " + B + "\n\treturn " + expr + "\n}\n", 1, true
	case "varinit":
		return hdr + mainSig + "\tvar x " + T + " = " + A + "\n\tvar y " + T + " = " + B + "\n\treturn " + expr + "\n}\n", 1, true
	case "reassign":
		return hdr + mainSig + "\tx := " + T + "(1)\n\ty := " + T + "(1)\n\tx = " + A + "\n\ty = " + B + "\n\treturn " + expr + "\n}\n", 1, true
	case "vianame":
		// k is used after it was assigned to x: second result k > 0
		if a.Sign() <= 0 || a.Cmp(c12Pow(31)) >= 0 {
			return "", 0, false
		}
		sig := fmt.Sprintf("func main(a, b %s, c int32) (%s, bool) {\n", T, R)
		return hdr + sig + "\tk := " + A + "\n\tvar x " + T + "\n\tx = k\n\tvar y " + T + "\n\ty = " + B + "\n\treturn " + expr + ", k > 0\n}\n", 2, true
	case "pkgconst":
		return hdr + "const KA = " + A + "\nconst KB = " + B + "\n" + mainSig + "\tvar x " + T + "\n\tvar y " + T + "\n\tx = KA\n\ty = KB\n\treturn " + expr + "\n}\n", 1, true
	case "field":
		e := strings.ReplaceAll(strings.ReplaceAll(expr, "x", "s.f"), "y", "s.g")
		return hdr + "type S struct {\n\tf " + T + "\n\tg " + T + "\n}\n" + mainSig + "\tvar s S\n\ts.f = " + A + "\n\ts.g = " + B + "\n\treturn " + e + "\n}\n", 1, true
	case "element":
		e := strings.ReplaceAll(strings.ReplaceAll(expr, "x", "arr[0]"), "y", "arr[1]")
		return hdr + mainSig + "\tvar arr [2]" + T + "\n\tarr[0] = " + A + "\n\tarr[1] = " + B + "\n\treturn " + e + "\n}\n", 1, true
	case "argument":
		e := strings.ReplaceAll(strings.ReplaceAll(expr, "x", "id("+A+")"), "y", "id("+B+")")
		return hdr + "func id(v " + T + ") " + T + " {\n\treturn v\n}\n" + mainSig + "\treturn " + e + "\n}\n", 1, true
	case "result":
		e := strings.ReplaceAll(strings.ReplaceAll(expr, "x", "ka()"), "y", "kb()")
		return hdr + "func ka() " + T + " {\n\treturn " + A + "\n}\nfunc kb() " + T + " {\n\treturn " + B + "\n}\n" + mainSig + "\treturn " + e + "\n}\n", 1, true
	case "opassign":
		if op >= 11 || op == 8 {
			return "", 0, false
		}
		return hdr + mainSig + "\tvar x " + T + " = " + A + "\n\tx " + c12Ops[op] + "= " + B + "\n\treturn x\n}\n", 1, true
	case "loopvar":
		if a.Sign() < 0 || a.Cmp(c12Pow(31)) >= 0 {
			return "", 0, false
		}
		return hdr + mainSig + "\tvar x " + T + "\n\tfor i := " + A + "; i <= " + A + "; i++ {\n\t\tx = i\n\t}\n" + bindY("\tvar y "+T+" = "+B+"\n") + "\treturn " + expr + "\n}\n", 1, true
	}
	return "", 0, false
}

type c12BindReplay struct {
	Seed    uint64   `json:"seed"`
	Form    string   `json:"binding_form"`
	Const   string   `json:"constant_variant"`
	Runtime string   `json:"runtime_variant"`
	Inputs  []string `json:"runtime_inputs"`
	Got     string   `json:"constant_variant_result"`
	Want    string   `json:"runtime_variant_result"`
}

func runC12Bind(c *Ctx) {
	r := c.rng.Fork()
	type tp struct{ k, n int }
	types := []tp{{1, 8}, {0, 8}, {1, 16}, {1, 32}, {0, 32}, {1, 40}, {0, 64}, {1, 64}}
	if c.Thorough() {
		types = append(types, tp{0, 16}, tp{0, 40}, tp{1, 63}, tp{1, 9}, tp{0, 33})
	}
	ops := []int{11, 12, 13, 14, 15, 16, 1, 2, 5, 6, 7, 0, 9, 10}
	nProg, nFail, nReject := 0, 0, map[string]int{}
	genNegWide := c12GenNegWide()
	c.Note("bind: class F6l (negative literal materialised into a wider intN) generated: %v", genNegWide)
	for _, t := range types {
		top := c12Pow(t.n - 1)
		var vals []*big.Int
		if t.k == 1 {
			vals = []*big.Int{new(big.Int).Sub(c12Pow(t.n), big.NewInt(1)), top, new(big.Int).Add(top, c12Rand(r, t.n-1)),
				c12Rand(r, t.n-1), big.NewInt(int64(1 + r.Intn(100))), big.NewInt(0)}
		} else {
			vals = []*big.Int{new(big.Int).Sub(top, big.NewInt(1)), big.NewInt(-1), big.NewInt(-5),
				new(big.Int).Neg(new(big.Int).Add(c12Rand(r, t.n-2), big.NewInt(1))),
				c12Rand(r, t.n-1), big.NewInt(int64(1 + r.Intn(100)))}
		}
		for fi, form := range c12BindForms {
			for oi, op := range ops {
				if !c.Thorough() && (fi+oi+t.n)%2 == 1 && op > 14 {
					continue
				}
				a := vals[(fi+oi)%len(vals)]
				b := vals[r.Intn(len(vals))]
				if op == 9 || op == 10 {
					b = big.NewInt(int64(r.Intn(t.n + 1)))
				}
				// stay inside what the single-expression checks have established:
				// non-negative operands inside the proved class; negative operands
				// (written as negative literals, the binding gives the type) only
				// under comparisons, which read the constant's own Int64()
				neg := a.Sign() < 0 || (b.Sign() < 0 && op != 9 && op != 10)
				negWide := false
				if neg {
					if op < 11 {
						continue
					}
					// F6l: a negative literal (a 32-bit constant) MATERIALISED into an intN
					// variable wider than 32 bits — var x int64 = -1, s.f = -5, return -1 from
					// func() int64, arr[0] = -1, id(-1) — is moved without sign extension.
					// The forms that keep the constant bound (assign, reassign, vianame,
					// pkgconst) are right.
					if t.n > 32 {
						switch form {
						case "varinit", "field", "element", "argument", "result", "loopvar", "opassign":
							if !genNegWide {
								continue
							}
							negWide = true
						}
					}
				} else {
					m := c12Meta{code: op, k: t.k, n: t.n, a: a, b: b}
					if m.class() < 1 {
						continue
					}
				}
				src, nres, ok := c12BindProgram(form, op, t.k, t.n, a, b)
				if !ok {
					continue
				}
				// run-time variant: the same operator on inputs of the declared type
				T := c12TypeName(t.k, t.n)
				R := T
				if op >= 11 {
					R = "bool"
				}
				e := "a " + c12Ops[op] + " b"
				if op == 9 || op == 10 {
					e = "a " + c12Ops[op] + " " + b.String()
				}
				var srcD string
				inD := []*big.Int{c12Unsigned(a, t.n), c12Unsigned(b, t.n)}
				if nres == 2 {
					srcD = fmt.Sprintf("package main\nfunc main(a, b %s, c int32) (%s, bool) {\n\treturn %s, c > 0\n}\n", T, R, e)
					inD = append(inD, a)
				} else {
					srcD = fmt.Sprintf("package main\nfunc main(a, b %s) %s {\n\treturn %s\n}\n", T, R, e)
				}
				oc := c12RunN(src, inD, nres)
				od := c12RunN(srcD, inD, nres)
				nProg++
				c.Hist("bind:form:" + form)
				c.Eval(src, oc.kind == 0 && od.kind == 0)
				str := func(o c12Outcome) string {
					if o.kind != 0 {
						return o.String()
					}
					var s []string
					for _, v := range o.vals {
						s = append(s, "0x"+v.Text(16))
					}
					return strings.Join(s, ",")
				}
				rp := c12BindReplay{Seed: c.Seed, Form: form, Const: src, Runtime: srcD,
					Inputs: []string{inD[0].String(), inD[1].String()}, Got: str(oc), Want: str(od)}
				base := fmt.Sprintf("c12:fold:binding-form:%s:%s:%s", form, c12OpNames[op], T)
				switch {
				case oc.kind == 2:
					nFail++
					c.Fail(base+":panic", "the compiler panics ("+oc.text+")", rp)
				case od.kind != 0:
					c.Hist("bind:runtime-variant-rejected")
				case oc.kind == 1:
					// a form the language does not accept for this type / value is not a
					// folding defect; it is counted and listed in the notes of the run
					nReject[form+": "+oc.text]++
				default:
					for i := range oc.vals {
						if oc.vals[i].Cmp(od.vals[i]) != 0 {
							nFail++
							if negWide && i == 0 && op >= 11 {
								// discriminator: is the result exactly what the committed compiler
								// yields, the comparison of the operands' container patterns
								// ZERO-extended to the declared width?
								rd := func(v *big.Int) *big.Int {
									cw, p := c12LiteralPattern(v)
									if cw >= t.n {
										return c12Signed(0, t.n, new(big.Int).Mod(p, c12Pow(t.n)))
									}
									return p
								}
								cmp := rd(a).Cmp(rd(b))
								want := map[int]bool{11: cmp < 0, 12: cmp <= 0, 13: cmp > 0, 14: cmp >= 0, 15: cmp == 0, 16: cmp != 0}[op]
								if (oc.vals[0].Sign() != 0) == want {
									c.Fail(base+":negative-literal-zero-extended-into-wider-int",
										fmt.Sprintf("binding form %s: the constant variant gives %s, the run-time variant %s", form, str(oc), str(od)), rp)
									break
								}
							}
							c.Fail(fmt.Sprintf("%s:result%d:folded-differs-from-circuit", base, i),
								fmt.Sprintf("binding form %s: the constant variant gives %s, the run-time variant %s", form, str(oc), str(od)), rp)
							break
						}
					}
				}
			}
		}
	}
	for k, v := range nReject {
		c.Note("bind: constant variant rejected %d times: %s", v, k)
	}
	c.Note("binding-form programs: %d pairs, %d failing", nProg, nFail)
}
