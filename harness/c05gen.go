package main

// Generator of two-party MPCL programs for property C05: straight-line code
// (plus if/else merges) over a small pool of typed variables with heavy value
// aliasing — constant shifts, casts, array element reads/updates, slices of
// arrays, struct field reads/updates, array concatenation — interleaved with
// same-width arithmetic so that recycled wire ids are re-used quickly.

import (
	"fmt"
	"math/big"
	"strings"
)

type c05Type struct {
	kind   int // 0 uint, 1 int, 2 array of uint, 3 struct S, 4 bool
	bits   int // scalar width / element width
	n      int // array length
	fields []c05Type
}

func (t c05Type) String() string {
	switch t.kind {
	case 0:
		return fmt.Sprintf("uint%d", t.bits)
	case 1:
		return fmt.Sprintf("int%d", t.bits)
	case 2:
		return fmt.Sprintf("[%d]uint%d", t.n, t.bits)
	case 3:
		return "S"
	default:
		return "bool"
	}
}

func (t c05Type) size() int {
	switch t.kind {
	case 2:
		return t.n * t.bits
	case 3:
		s := 0
		for _, f := range t.fields {
			s += f.size()
		}
		return s
	case 4:
		return 1
	}
	return t.bits
}

func (t c05Type) scalar() bool { return t.kind == 0 || t.kind == 1 }
func (t c05Type) eq(o c05Type) bool {
	return t.String() == o.String()
}

type c05Var struct {
	name string
	t    c05Type
}

type c05Gen struct {
	r       *RNG
	vars    []c05Var
	lines   []string
	widths  []int
	st      c05Type
	hasS    bool
	nextVar int
	feat    map[string]int
	cheap   bool
}

func (g *c05Gen) fresh() string {
	g.nextVar++
	return fmt.Sprintf("v%d", g.nextVar)
}

func (g *c05Gen) emit(format string, a ...interface{}) {
	g.lines = append(g.lines, "\t"+fmt.Sprintf(format, a...))
}

func (g *c05Gen) pick(pred func(c05Var) bool) (c05Var, bool) {
	var c []c05Var
	for _, v := range g.vars {
		if pred(v) {
			c = append(c, v)
		}
	}
	if len(c) == 0 {
		return c05Var{}, false
	}
	// bias towards recently defined variables
	if g.r.Intn(3) > 0 && len(c) > 3 {
		return c[len(c)-1-g.r.Intn(3)], true
	}
	return c[g.r.Intn(len(c))], true
}

func (g *c05Gen) scalarT() c05Type {
	return c05Type{kind: g.r.Intn(2), bits: g.widths[g.r.Intn(len(g.widths))]}
}

// scalarOf returns an expression of exactly type t built from a pool variable
// (cast when needed).
func (g *c05Gen) scalarOf(t c05Type) string {
	if v, ok := g.pick(func(v c05Var) bool { return v.t.eq(t) }); ok && g.r.Intn(4) > 0 {
		return v.name
	}
	v, ok := g.pick(func(v c05Var) bool { return v.t.scalar() })
	if !ok {
		return fmt.Sprintf("%s(%d)", t, g.r.Intn(100))
	}
	if v.t.eq(t) {
		return v.name
	}
	g.feat["cast"]++
	return fmt.Sprintf("%s(%s)", t, v.name)
}

func (g *c05Gen) def(t c05Type, expr string) string {
	n := g.fresh()
	g.emit("%s := %s", n, expr)
	g.vars = append(g.vars, c05Var{n, t})
	return n
}

func (g *c05Gen) stmt() {
	k := g.r.Intn(100)
	switch {
	case k < 14: // constant shift
		v, ok := g.pick(func(v c05Var) bool { return v.t.scalar() })
		if !ok {
			return
		}
		c := g.r.Intn(v.t.bits + 1)
		if g.r.Intn(3) > 0 {
			c = 1 + g.r.Intn(3)
		}
		op := ">>"
		if g.r.Intn(3) == 0 {
			op = "<<"
		}
		g.feat["shift"]++
		g.def(v.t, fmt.Sprintf("%s %s %d", v.name, op, c))
	case k < 24: // cast
		t := g.scalarT()
		v, ok := g.pick(func(v c05Var) bool { return v.t.scalar() && !v.t.eq(t) })
		if !ok {
			return
		}
		g.feat["cast"]++
		g.def(t, fmt.Sprintf("%s(%s)", t, v.name))
	case k < 46: // arithmetic
		t := g.scalarT()
		a := g.scalarOf(t)
		b := g.scalarOf(t)
		ops := []string{"+", "+", "+", "-", "&", "|", "^"}
		if !g.cheap && t.bits <= 16 {
			ops = append(ops, "*")
			if g.r.Intn(4) == 0 {
				ops = append(ops, "/", "%")
			}
		}
		op := ops[g.r.Intn(len(ops))]
		g.feat["arith"]++
		g.def(t, fmt.Sprintf("%s %s %s", a, op, b))
	case k < 56: // array element update
		v, ok := g.pick(func(v c05Var) bool { return v.t.kind == 2 })
		if !ok {
			return
		}
		e := g.scalarOf(c05Type{kind: 0, bits: v.t.bits})
		g.feat["array-update"]++
		g.emit("%s[%d] = %s", v.name, g.r.Intn(v.t.n), e)
	case k < 64: // array element read
		v, ok := g.pick(func(v c05Var) bool { return v.t.kind == 2 })
		if !ok {
			return
		}
		g.feat["array-read"]++
		g.def(c05Type{kind: 0, bits: v.t.bits}, fmt.Sprintf("%s[%d]", v.name, g.r.Intn(v.t.n)))
	case k < 70: // slice of an array, then an element of the slice
		v, ok := g.pick(func(v c05Var) bool { return v.t.kind == 2 && v.t.n >= 2 })
		if !ok {
			return
		}
		if v.t.n >= 3 && g.r.Intn(2) == 0 {
			// the same comparison on slices of two different lengths
			l1 := 1 + g.r.Intn(v.t.n-1)
			l2 := 1 + g.r.Intn(v.t.n-1)
			if l2 == l1 {
				l2 = l1%(v.t.n-1) + 1
			}
			op := []string{"==", "!="}[g.r.Intn(2)]
			g.feat["slice-compare-two-lengths"]++
			g.def(c05Type{kind: 4}, fmt.Sprintf("%s[0:%d] %s %s[%d:%d]", v.name, l1, op, v.name, v.t.n-l1, v.t.n))
			g.def(c05Type{kind: 4}, fmt.Sprintf("%s[0:%d] %s %s[%d:%d]", v.name, l2, op, v.name, v.t.n-l2, v.t.n))
			return
		}
		from := g.r.Intn(v.t.n - 1)
		to := from + 1 + g.r.Intn(v.t.n-from-1+1)
		if to > v.t.n {
			to = v.t.n
		}
		g.feat["slice"]++
		s := g.fresh()
		g.emit("%s := %s[%d:%d]", s, v.name, from, to)
		g.def(c05Type{kind: 0, bits: v.t.bits}, fmt.Sprintf("%s[%d]", s, g.r.Intn(to-from)))
	case k < 78: // struct field update
		if !g.hasS {
			return
		}
		v, ok := g.pick(func(v c05Var) bool { return v.t.kind == 3 })
		if !ok {
			return
		}
		f := g.r.Intn(len(g.st.fields))
		g.feat["struct-update"]++
		g.emit("%s.F%d = %s", v.name, f, g.scalarOf(g.st.fields[f]))
	case k < 85: // struct field read
		if !g.hasS {
			return
		}
		v, ok := g.pick(func(v c05Var) bool { return v.t.kind == 3 })
		if !ok {
			return
		}
		f := g.r.Intn(len(g.st.fields))
		g.feat["struct-read"]++
		g.def(g.st.fields[f], fmt.Sprintf("%s.F%d", v.name, f))
	case k < 89: // dynamic index
		v, ok := g.pick(func(v c05Var) bool { return v.t.kind == 2 && (v.t.n == 2 || v.t.n == 4) })
		if !ok {
			return
		}
		i, ok := g.pick(func(v c05Var) bool { return v.t.kind == 0 })
		if !ok {
			return
		}
		g.feat["index"]++
		g.def(c05Type{kind: 0, bits: v.t.bits}, fmt.Sprintf("%s[%s & %s(%d)]", v.name, i.name, i.t, v.t.n-1))
	case k < 94: // if/else merge
		t := g.scalarT()
		a := g.scalarOf(t)
		b := g.scalarOf(t)
		c := g.scalarOf(t)
		n := g.fresh()
		g.feat["phi"]++
		g.emit("var %s %s", n, t)
		g.emit("if %s < %s {", a, b)
		g.emit("\t%s = %s + %s", n, a, c)
		g.emit("} else {")
		g.emit("\t%s = %s >> 1", n, c)
		g.emit("}")
		g.vars = append(g.vars, c05Var{n, t})
	case k < 97: // reassignment of a scalar (new version of the same name)
		v, ok := g.pick(func(v c05Var) bool { return v.t.scalar() })
		if !ok {
			return
		}
		g.feat["reassign"]++
		g.emit("%s = %s + %s", v.name, v.name, g.scalarOf(v.t))
	default: // array concatenation
		v, ok := g.pick(func(v c05Var) bool { return v.t.kind == 2 })
		if !ok {
			return
		}
		w, ok := g.pick(func(x c05Var) bool { return x.t.kind == 2 && x.t.bits == v.t.bits })
		if !ok {
			return
		}
		g.feat["concat"]++
		g.def(c05Type{kind: 2, bits: v.t.bits, n: v.t.n + w.t.n}, fmt.Sprintf("%s + %s", v.name, w.name))
	}
}

type c05Prog struct {
	src    string
	want   []*big.Int // reference results (when the family computes them)
	opt    c05StreamOpt
	g, e   []string
	feat   map[string]int
	nstmts int
}

func c05RandHex(r *RNG, bits int) string {
	n := (bits + 3) / 4
	if n == 0 {
		n = 1
	}
	var sb strings.Builder
	sb.WriteString("0x")
	for i := 0; i < n; i++ {
		sb.WriteByte("0123456789abcdef"[r.Intn(16)])
	}
	return sb.String()
}

// c05InputFor renders a random input for an argument type; for unsized
// scalars the literal's size instantiates the type.
func c05InputFor(r *RNG, t c05Type, unsized bool) []string {
	switch t.kind {
	case 0, 1:
		v := new(big.Int)
		bits := t.bits
		for i := 0; i < bits; i++ {
			if r.Bool() {
				v.SetBit(v, i, 1)
			}
		}
		if unsized && v.Sign() == 0 {
			v.SetInt64(5)
		}
		if t.kind == 1 && !unsized && v.Bit(bits-1) == 1 {
			v.Sub(v, new(big.Int).Lsh(big.NewInt(1), uint(bits)))
		}
		return []string{v.String()}
	case 2:
		return []string{c05RandHex(r, t.size())}
	case 3:
		var res []string
		for _, f := range t.fields {
			res = append(res, c05InputFor(r, f, false)...)
		}
		return res
	}
	return []string{"1"}
}

// c05GenProg builds one program.  stmts = number of statements.
func c05GenProg(r *RNG, stmts int, cheap bool) c05Prog {
	g := &c05Gen{r: r, feat: map[string]int{}, cheap: cheap}
	switch r.Intn(4) {
	case 0:
		g.widths = []int{8}
	case 1:
		g.widths = []int{8, 16}
	case 2:
		g.widths = []int{16, 32}
	default:
		g.widths = []int{8, 16, []int{3, 7, 12, 24, 33}[r.Intn(5)]}
	}
	g.st = c05Type{kind: 3, fields: []c05Type{g.scalarT(), g.scalarT()}}
	if r.Bool() {
		g.st.fields = append(g.st.fields, g.scalarT())
	}
	argT := func() (c05Type, bool) {
		switch r.Intn(10) {
		case 0, 1, 2:
			return c05Type{kind: 2, bits: g.widths[0], n: 2 + r.Intn(3)}, false
		case 3:
			g.hasS = true
			return g.st, false
		case 4:
			// unsized scalar, instantiated from the input size
			return c05Type{kind: r.Intn(2), bits: 2 + r.Intn(30)}, true
		}
		return g.scalarT(), false
	}
	ta, ua := argT()
	tb, ub := argT()
	if r.Intn(5) == 0 {
		// both arguments arrays of one type (concatenation / comparison of the two)
		ta, ua = c05Type{kind: 2, bits: g.widths[0], n: 2 + r.Intn(2)}, false
		tb, ub = ta, false
	}
	decl := func(t c05Type, unsized bool) string {
		if unsized {
			if t.kind == 1 {
				return "int"
			}
			return "uint"
		}
		return t.String()
	}
	var prog c05Prog
	prog.g = c05InputFor(r, ta, ua)
	prog.e = c05InputFor(r, tb, ub)
	if ua {
		// the instantiated width is the literal's bit length
		v, _ := new(big.Int).SetString(prog.g[0], 0)
		ta.bits = v.BitLen()
		g.feat["unsized-arg"]++
	}
	if ub {
		v, _ := new(big.Int).SetString(prog.e[0], 0)
		tb.bits = v.BitLen()
		g.feat["unsized-arg"]++
	}
	if ua || ub {
		// unsized scalars enter the pool through a cast
		if ua {
			t := g.scalarT()
			g.emit("a0 := %s(a)", t)
			g.vars = append(g.vars, c05Var{"a0", t})
		} else {
			g.vars = append(g.vars, c05Var{"a", ta})
		}
		if ub {
			t := g.scalarT()
			g.emit("b0 := %s(b)", t)
			g.vars = append(g.vars, c05Var{"b0", t})
		} else {
			g.vars = append(g.vars, c05Var{"b", tb})
		}
	} else {
		g.vars = append(g.vars, c05Var{"a", ta}, c05Var{"b", tb})
	}
	// local aggregates
	if r.Intn(3) > 0 {
		t := c05Type{kind: 2, bits: g.widths[0], n: 2 + r.Intn(3)}
		n := g.fresh()
		g.emit("var %s %s", n, t)
		g.vars = append(g.vars, c05Var{n, t})
	}
	if r.Intn(3) == 0 || g.hasS {
		g.hasS = true
		n := g.fresh()
		g.emit("var %s S", n)
		g.vars = append(g.vars, c05Var{n, g.st})
	}
	for i := 0; i < stmts; i++ {
		g.stmt()
	}
	// epilogue (one program in three when two arrays of one type exist): the two
	// arrays are concatenated, a slice of the concatenation is returned, both die
	// at one comparison, fresh values of their width follow
	var extra []c05Var
	if r.Intn(3) == 0 {
		var p, q *c05Var
		for i := len(g.vars) - 1; i >= 0 && q == nil; i-- {
			v := &g.vars[i]
			if v.t.kind != 2 || v.t.size() > 64 {
				continue
			}
			if p == nil {
				p = v
			} else if v.t.eq(p.t) && v.name != p.name {
				q = v
			}
		}
		if p != nil && q != nil {
			k, w := p.t.n, p.t.bits
			ut := c05Type{kind: 0, bits: k * w}
			sc := g.scalarOf(ut)
			g.emit("ex := %s + %s", sc, sc)
			g.emit("en := %s + %s", q.name, p.name)
			g.emit("el := en[%d:%d]", k-1, k+1)
			g.emit("eq := %s == %s", q.name, p.name)
			g.emit("es := ex + ex")
			g.emit("et := es ^ ex")
			extra = []c05Var{{"el", c05Type{kind: 2, bits: w, n: 2}}, {"eq", c05Type{kind: 4}}, {"es", ut}, {"et", ut}}
			g.feat["joint-death-epilogue"]++
		}
	}
	// epilogue (one program in four): one 32-bit constant bit pattern used at 64
	// bits as a signed and as an unsigned operand (sign- vs zero-extension)
	if r.Intn(4) == 0 {
		k := []int64{1, 3, 65536}[r.Intn(3)]
		it, ut := c05Type{kind: 1, bits: 64}, c05Type{kind: 0, bits: 64}
		g.emit("ea := %s", g.scalarOf(it))
		g.emit("eb := %s", g.scalarOf(it))
		g.emit("var estep int64")
		g.emit("var emask uint64")
		sgn, uns := fmt.Sprintf("\testep = -%d", k), fmt.Sprintf("\temask = %d", (int64(1)<<32)-k)
		if r.Bool() {
			sgn, uns = uns, sgn
		}
		g.emit("if ea > eb {")
		g.emit("%s", sgn)
		g.emit("%s", uns)
		g.emit("} else {")
		g.emit("\testep = 1")
		g.emit("\temask = 65535")
		g.emit("}")
		g.emit("er1 := ea + estep")
		g.emit("er2 := uint64(eb) & emask")
		extra = append(extra, c05Var{"er1", it}, c05Var{"er2", ut})
		g.feat["sign-resize-epilogue"]++
	}
	// results: 1..3 pool variables, later ones preferred
	nret := 1 + r.Intn(3)
	var rets []c05Var
	for i := 0; i < nret; i++ {
		v := g.vars[len(g.vars)-1-r.Intn(min(len(g.vars), 6))]
		rets = append(rets, v)
	}
	// make sure one scalar that depends on late code is returned
	if v, ok := g.pick(func(v c05Var) bool { return v.t.scalar() }); ok {
		rets[0] = v
	}
	rets = append(rets, extra...)
	var rt, rn []string
	for _, v := range rets {
		rt = append(rt, v.t.String())
		rn = append(rn, v.name)
	}
	var sb strings.Builder
	sb.WriteString("package main\n\n")
	if g.hasS {
		sb.WriteString("type S struct {\n")
		for i, f := range g.st.fields {
			fmt.Fprintf(&sb, "\tF%d %s\n", i, f)
		}
		sb.WriteString("}\n\n")
	}
	fmt.Fprintf(&sb, "func main(a %s, b %s) (%s) {\n", decl(ta, ua), decl(tb, ub), strings.Join(rt, ", "))
	sb.WriteString(strings.Join(g.lines, "\n"))
	fmt.Fprintf(&sb, "\n\treturn %s\n}\n", strings.Join(rn, ", "))
	prog.src = sb.String()
	prog.feat = g.feat
	prog.nstmts = stmts
	return prog
}

// c05LargeProg: more than 65535 wire ids are handed out (every array update
// allocates a fresh id block for the whole array), so the gates of the later
// additions carry 32-bit wire ids.
func c05LargeProg(r *RNG) c05Prog {
	var sb strings.Builder
	n := 40 + r.Intn(8)
	sb.WriteString("package main\n\nfunc main(a, b uint32) (uint32, uint32) {\n")
	sb.WriteString("\tvar arr [64]uint32\n")
	for i := 0; i < n; i++ {
		fmt.Fprintf(&sb, "\tarr[%d] = a >> %d\n", r.Intn(64), r.Intn(8))
	}
	sb.WriteString("\tx := arr[3] + b\n\ty := x + arr[5]\n\tz := (y >> 1) + a\n\tw := z ^ x\n")
	sb.WriteString("\treturn w + y, z\n}\n")
	return c05Prog{src: sb.String(), g: []string{fmt.Sprint(r.Intn(1 << 30))}, e: []string{fmt.Sprint(r.Intn(1 << 30))},
		feat: map[string]int{"large-ids": 1, "array-update": n}, nstmts: n + 4}
}

// c05BigProg: a single uint256 multiplication / division / remainder: the
// step circuit has far more than 65536 wires while the program uses only a
// few hundred permanent wire ids.
func c05BigProg(r *RNG, k int) c05Prog {
	op := []string{"*", "/", "%"}[k%3]
	src := fmt.Sprintf("package main\n\nfunc main(a, b uint256) uint256 {\n\treturn a %s b\n}\n", op)
	b := c05RandHex(r, 256)
	if op != "*" {
		b = c05RandHex(r, 100) // a divisor well below the dividend
	}
	return c05Prog{src: src, g: []string{c05RandHex(r, 256)}, e: []string{b},
		feat: map[string]int{"big-circuit": 1}, nstmts: 1}
}
