package main

// Property C06, door inventory (notes/C06-findings.md, table "Doors"): the less
// travelled ways into the OT functionality, each evaluated with the property's
// own oracle (the OT relation on the real outputs; oracle only, no
// correspondence cases — the model is tied to the code by c06.go).
//
//   conn        every ot.OT implementation over p2p.Conn (the production IO:
//               buffered, nothing leaves before Flush; ReceiveData returns fresh
//               slices) on whole and fragmenting transports; argument slices that
//               are windows into larger arrays (circuit.Garbler / Evaluator pass
//               garbled.Wires[off:off+n], wires[start:end]) with canaries around
//               them; arguments overwritten by the caller after the call returns;
//               results read only after the whole session; labels that are zero,
//               all-ones, equal in a pair, with leading / trailing zero bytes
//   base        COT / ROT over another base OT (RSA)
//   short-rand  caller-supplied randomness that returns fewer bytes than asked
//   concurrent  several pairs of all implementations at once under GC pressure
//   duplex      the gmw/vole call pattern: both parties hold an IKNPSender AND an
//               IKNPReceiver on ONE p2p.Conn (CO base, nil delta), alternate
//               SendBits / ReceiveBits with other traffic in between, batch sizes
//               4096 and 8192, label batches in both directions (vole)
//   raw-iknp    caller-chosen Delta = 0 / all-ones, result windows with canaries,
//               the returned label slice overwritten by the caller
//   legacy-rsa  ot.NewSender / NewReceiver / SenderXfer / ReceiverXfer (apps/ot)
//               and p2p.Conn.Receive, overlapping transfers, results read later
//   helpers     the CO helper functions on P-224/P-384/P-521, one sender setup for
//               several receivers, overlapping single transfers on long-lived
//               COSender / COReceiver objects
//   retry       a session that dies half way, then the same objects on a new
//               connection
//   front end   apps/ot as a fresh process (c06apps.go)

import (
	"bytes"
	"crypto/elliptic"
	"fmt"
	"io"
	"os"
	"runtime"
	"runtime/debug"
	"sync"
	"time"

	"github.com/markkurossi/mpc/ot"
	"github.com/markkurossi/mpc/p2p"
)

// ---------------------------------------------------------------------------
// transports

// c06Queue is an unbounded byte queue; Read returns at most frag bytes (0 = all).
type c06Queue struct {
	mu     sync.Mutex
	cond   *sync.Cond
	buf    []byte
	closed bool
	frag   int
	k      int
}

func newC06Queue(frag int) *c06Queue {
	q := &c06Queue{frag: frag}
	q.cond = sync.NewCond(&q.mu)
	return q
}

func (q *c06Queue) Write(p []byte) (int, error) {
	q.mu.Lock()
	defer q.mu.Unlock()
	if q.closed {
		return 0, io.ErrClosedPipe
	}
	q.buf = append(q.buf, p...)
	q.cond.Broadcast()
	return len(p), nil
}

func (q *c06Queue) Read(p []byte) (int, error) {
	q.mu.Lock()
	defer q.mu.Unlock()
	for len(q.buf) == 0 {
		if q.closed {
			return 0, io.EOF
		}
		q.cond.Wait()
	}
	n := len(p)
	if n > len(q.buf) {
		n = len(q.buf)
	}
	if q.frag > 0 {
		q.k = q.k%q.frag + 1 // 1, 2, ..., frag, 1, ...
		if q.k < n {
			n = q.k
		}
	}
	copy(p, q.buf[:n])
	q.buf = q.buf[n:]
	return n, nil
}

func (q *c06Queue) close() {
	q.mu.Lock()
	q.closed = true
	q.cond.Broadcast()
	q.mu.Unlock()
}

type c06End struct{ r, w *c06Queue }

func (e *c06End) Read(p []byte) (int, error)  { return e.r.Read(p) }
func (e *c06End) Write(p []byte) (int, error) { return e.w.Write(p) }

// c06Link is a pair of connected ot.IO endpoints and the way to kill them.
type c06Link struct {
	a, b ot.IO
	kill func()
	done func() // release resources after a clean session
}

func c06PipeLink() *c06Link {
	p0, p1 := ot.NewPipe()
	return &c06Link{a: p0, b: p1, kill: func() { p0.Close(); p1.Close() }, done: func() {}}
}

// c06ConnLink: two p2p.Conn over an in-memory duplex; frag > 0 = reads are
// delivered in pieces of 1..frag bytes.
func c06ConnLink(frag int) (*c06Link, *p2p.Conn, *p2p.Conn) {
	ab, ba := newC06Queue(frag), newC06Queue(frag)
	ca := p2p.NewConn(&c06End{r: ba, w: ab})
	cb := p2p.NewConn(&c06End{r: ab, w: ba})
	kill := func() { ab.close(); ba.close() }
	done := func() {
		ca.Close()
		cb.Close()
		kill()
	}
	return &c06Link{a: ca, b: cb, kill: kill, done: done}, ca, cb
}

// c06ShortReader hands out at most 1..5 bytes per Read (legal for an io.Reader).
type c06ShortReader struct {
	r *RNG
	k int
}

func (s *c06ShortReader) Read(p []byte) (int, error) {
	if len(p) == 0 {
		return 0, nil
	}
	s.k = s.k%5 + 1
	n := s.k
	if n > len(p) {
		n = len(p)
	}
	return s.r.Read(p[:n])
}

// ---------------------------------------------------------------------------
// implementations

type c06Impl struct {
	name string
	rot  bool
	mk   func(rd func() io.Reader, shared bool) ot.OT
}

func c06Impls() []c06Impl {
	return []c06Impl{
		{"co", false, func(rd func() io.Reader, sh bool) ot.OT { return ot.NewCO(rd()) }},
		{"rsa-1024", false, func(rd func() io.Reader, sh bool) ot.OT { return ot.NewRSA(rd(), 1024) }},
		{"cot", false, func(rd func() io.Reader, sh bool) ot.OT { return ot.NewCOT(ot.NewCO(rd()), rd(), false, sh) }},
		{"cot-malicious", false, func(rd func() io.Reader, sh bool) ot.OT { return ot.NewCOT(ot.NewCO(rd()), rd(), true, sh) }},
		{"rot", true, func(rd func() io.Reader, sh bool) ot.OT { return ot.NewROT(ot.NewCO(rd()), rd(), false, sh) }},
		{"rot-malicious", true, func(rd func() io.Reader, sh bool) ot.OT { return ot.NewROT(ot.NewCO(rd()), rd(), true, sh) }},
	}
}

func c06PlainRand(r *RNG) func() io.Reader { return func() io.Reader { return r.Fork() } }
func c06ShortRand(r *RNG) func() io.Reader {
	return func() io.Reader { return &c06ShortReader{r: r.Fork()} }
}

// ---------------------------------------------------------------------------
// one batch of a door session: the argument slices are windows into larger
// arrays; the references are kept apart from what the implementation is given

type c06DBatch struct {
	n        int
	pattern  string
	pre      int
	bigW     []ot.Wire  // the sender's array; the argument is bigW[pre:pre+n]
	bigW0    []ot.Wire  // its contents before the call
	bigR     []ot.Label // the receiver's array; the argument is bigR[pre:pre+n]
	bigR0    []ot.Label
	flags    []bool     // the argument
	flags0   []bool     // the choice bits of the call
	wiresRef []ot.Wire  // the sender's labels: before the call (ROT: after it)
	got      []ot.Label // the receiver's labels after the call
	scribble bool       // the caller overwrites its arguments right after the call
}

func c06SpecialLabel(r *RNG, k int) ot.Label {
	switch k % 6 {
	case 0:
		return ot.Label{}
	case 1:
		return ot.Label{D0: ^uint64(0), D1: ^uint64(0)}
	case 2:
		return ot.Label{D1: r.U64()} // leading zero bytes
	case 3:
		return ot.Label{D0: r.U64()} // trailing zero bytes
	case 4:
		return ot.Label{D1: 1}
	}
	l, _ := ot.NewLabel(r)
	return l
}

func c06MkDBatch(r *RNG, n int, pattern string, special, scribble bool) *c06DBatch {
	b := &c06DBatch{n: n, pattern: pattern, pre: r.Intn(3), scribble: scribble}
	post := 1 + r.Intn(9) // spare capacity behind the window
	b.bigW = make([]ot.Wire, b.pre+n+post)
	b.bigR = make([]ot.Label, b.pre+n+post)
	for i := range b.bigW {
		b.bigW[i].L0, _ = ot.NewLabel(r)
		b.bigW[i].L1, _ = ot.NewLabel(r)
		b.bigR[i], _ = ot.NewLabel(r)
		if special && i >= b.pre && i < b.pre+n {
			k := r.Intn(12)
			b.bigW[i].L0 = c06SpecialLabel(r, k)
			b.bigW[i].L1 = c06SpecialLabel(r, k/6+r.Intn(6))
			if r.Intn(4) == 0 {
				b.bigW[i].L1 = b.bigW[i].L0 // both labels of the pair equal
			}
		}
	}
	b.bigW0 = append([]ot.Wire(nil), b.bigW...)
	b.bigR0 = append([]ot.Label(nil), b.bigR...)
	b.flags0 = c06Pattern(r, pattern, n)
	b.flags = append([]bool(nil), b.flags0...)
	return b
}

type c06DRun struct {
	name, impl, door string
	rot              bool
	batches          []*c06DBatch
	sErr, rErr       error
	stalled          bool
}

// c06Exec runs the batches on one pair; it does not touch the Ctx (so that
// several runs may overlap).  reinit: Init is called before every batch.
func c06Exec(run *c06DRun, snd, rcv ot.OT, link *c06Link, reinit bool, timeout time.Duration) {
	var wg sync.WaitGroup
	wg.Add(2)
	go func() {
		defer wg.Done()
		defer func() {
			if p := recover(); p != nil {
				run.sErr = fmt.Errorf("panic: %v", p)
				link.kill()
			}
		}()
		r := NewRNG(uint64(len(run.batches)) + 77)
		for bi, b := range run.batches {
			if bi == 0 || reinit {
				if run.sErr = snd.InitSender(link.a); run.sErr != nil {
					link.kill()
					return
				}
			}
			arg := b.bigW[b.pre : b.pre+b.n]
			if run.sErr = snd.Send(arg); run.sErr != nil {
				link.kill()
				return
			}
			if run.rot {
				b.wiresRef = append([]ot.Wire(nil), arg...)
			} else {
				b.wiresRef = b.bigW0[b.pre : b.pre+b.n]
			}
			if b.scribble {
				for i := range arg {
					arg[i].L0, _ = ot.NewLabel(r)
					arg[i].L1 = arg[i].L0
				}
			}
		}
	}()
	go func() {
		defer wg.Done()
		defer func() {
			if p := recover(); p != nil {
				run.rErr = fmt.Errorf("panic: %v", p)
				link.kill()
			}
		}()
		for bi, b := range run.batches {
			if bi == 0 || reinit {
				if run.rErr = rcv.InitReceiver(link.b); run.rErr != nil {
					link.kill()
					return
				}
			}
			arg := b.bigR[b.pre : b.pre+b.n]
			if run.rErr = rcv.Receive(b.flags, arg); run.rErr != nil {
				link.kill()
				return
			}
			if b.scribble {
				b.got = append([]ot.Label(nil), arg...)
				for i := range arg {
					arg[i] = ot.Label{D0: 0xdead, D1: uint64(i)}
					b.flags[i] = !b.flags[i]
				}
			} else {
				b.got = arg // read only after the whole session
			}
		}
	}()
	done := make(chan struct{})
	go func() { wg.Wait(); close(done) }()
	select {
	case <-done:
		if run.sErr == nil && run.rErr == nil {
			link.done()
		}
	case <-time.After(timeout):
		link.kill()
		run.stalled = true
		select {
		case <-done:
		case <-time.After(5 * time.Second):
		}
	}
}

// c06Judge evaluates the OT relation and the canaries of a finished run.
func c06Judge(c *Ctx, run *c06DRun) bool {
	tag := run.impl + "/" + run.door
	rp := c06Replay{Seed: c.Seed, Case: run.name, Impl: tag}
	if len(run.batches) > 0 {
		rp.N = run.batches[0].n
	}
	if run.stalled {
		rp.Detail = fmt.Sprintf("sender: %v, receiver: %v", run.sErr, run.rErr)
		c.Fail("c06:"+tag+":stalled", "OT pair did not terminate (a missing Flush shows only on a buffered connection)", rp)
		return false
	}
	if run.sErr != nil || run.rErr != nil {
		rp.Detail = fmt.Sprintf("sender: %v, receiver: %v", run.sErr, run.rErr)
		c.Fail("c06:"+tag+":error", "OT returned an error on an honest run", rp)
		return false
	}
	ok := true
	for bi, b := range run.batches {
		c.Hist(fmt.Sprintf("door:%s:%s", run.door, run.impl))
		c.Eval(fmt.Sprintf("door|%s|%s|%d|%s|%d|%v|%v", run.door, run.impl, b.n, b.pattern, bi, b.flags0, b.bigW0[b.pre]), true)
		rp := c06Replay{Seed: c.Seed, Case: run.name, Impl: tag, N: b.n, Pattern: b.pattern, Batch: bi}
		wrong, first := 0, -1
		for i := 0; i < b.n; i++ {
			exp := b.wiresRef[i].L0
			if b.flags0[i] {
				exp = b.wiresRef[i].L1
			}
			if !b.got[i].Equal(exp) {
				if first < 0 {
					first = i
				}
				wrong++
			}
		}
		if wrong > 0 {
			ok = false
			rp.Wrong, rp.First = wrong, first
			c.Fail(fmt.Sprintf("c06:%s:wrong-label:%s", tag, c06Class(b.n)),
				tag+": receiver's label is not the sender's label selected by the choice bit", rp)
		}
		// canaries: nothing outside the argument windows may change
		outside := 0
		for i := range b.bigR {
			if i >= b.pre && i < b.pre+b.n {
				continue
			}
			if !b.bigR[i].Equal(b.bigR0[i]) || b.bigW[i] != b.bigW0[i] {
				outside++
			}
		}
		if outside > 0 {
			ok = false
			rp.Wrong = outside
			rp.Detail = "elements outside wires[off:off+n] / result[off:off+n] were modified"
			c.Fail("c06:"+tag+":writes-outside-window", tag+": Send/Receive wrote outside the slices they were given", rp)
		}
	}
	return ok
}

// ---------------------------------------------------------------------------
// door: every implementation over p2p.Conn

func c06DoorConn(c *Ctx) {
	for ci, im := range c06Impls() {
		for _, shared := range []bool{false, true} {
			if shared && (im.name == "co" || im.name == "rsa-1024") {
				continue
			}
			r := c.rng.Fork()
			sizes := []int{1, 1, 9, 24, 57, 257}
			switch {
			case im.name == "rsa-1024":
				sizes = []int{1, 3, 1, 8}
			case im.name != "co" && !shared:
				sizes = []int{1, 8, 1, 129, 513, 2049}
			case im.name != "co":
				sizes = []int{3, 1, 64, 1025}
			}
			frag := 0
			if (ci+len(sizes))%2 == 0 {
				frag = 7
			}
			link, _, _ := c06ConnLink(frag)
			door := "conn"
			name := im.name
			if shared {
				name += "-shared"
			}
			run := &c06DRun{name: fmt.Sprintf("door-conn-%s-frag%d", name, frag), impl: name, door: door, rot: im.rot}
			for bi, n := range sizes {
				run.batches = append(run.batches, c06MkDBatch(r, n, c06Patterns[(bi+ci)%3], bi%3 == 1, bi%2 == 1))
			}
			c06Exec(run, im.mk(c06PlainRand(r), shared), im.mk(c06PlainRand(r), shared), link, shared, 40*time.Second)
			c06Judge(c, run)
			if run.stalled {
				return // one stalled pair is the finding; do not wait for the others
			}
		}
	}
}

// door: another base OT below the extension (NewCOT / NewROT take any ot.OT):
// RSA as the base, over p2p.Conn
//
// PENDING DECISION (reported, see notes/C06-findings.md "F-candidate: base OT initialised in
// the wrong role"): on the unchanged tree both runs fail during Init with a nil-pointer panic in
// RSA.Send.  The door runs only with C06_BASE_DOOR=1: the choice of base OT is judged out
// of scope; the skipped door is recorded in the stats notes of every run.
func c06DoorBase(c *Ctx) {
	if os.Getenv("C06_BASE_DOOR") != "1" {
		c.Note("door base (COT/ROT over a non-CO base OT) not run: outside the quantifier of C06 (implementations x sizes x choices x batches x shared mode; no in-tree caller uses a non-CO base); side observation in DESIGN 8; C06_BASE_DOOR=1 runs it")
		return
	}
	for _, rot := range []bool{false, true} {
		r := c.rng.Fork()
		rd := c06PlainRand(r)
		mk := func() ot.OT {
			if rot {
				return ot.NewROT(ot.NewRSA(rd(), 1024), rd(), true, true)
			}
			return ot.NewCOT(ot.NewRSA(rd(), 1024), rd(), false, false)
		}
		name := "cot/rsa-base"
		if rot {
			name = "rot-malicious-shared/rsa-base"
		}
		link, _, _ := c06ConnLink(0)
		run := &c06DRun{name: "door-base-" + name, impl: name, door: "conn", rot: rot}
		for bi, n := range []int{2, 17, 1} {
			run.batches = append(run.batches, c06MkDBatch(r, n, c06Patterns[bi%3], bi == 1, bi == 0))
		}
		c06Exec(run, mk(), mk(), link, rot, 60*time.Second)
		c06Judge(c, run)
	}
}

// door: randomness that reads short, every implementation
func c06DoorShortRand(c *Ctx) {
	for ci, im := range c06Impls() {
		r := c.rng.Fork()
		sizes := []int{1, 9, 65}
		if im.name == "rsa-1024" {
			sizes = []int{1, 4}
		}
		run := &c06DRun{name: "door-shortrand-" + im.name, impl: im.name, door: "short-rand", rot: im.rot}
		for bi, n := range sizes {
			run.batches = append(run.batches, c06MkDBatch(r, n, c06Patterns[(bi+ci+1)%3], false, false))
		}
		c06Exec(run, im.mk(c06ShortRand(r), false), im.mk(c06ShortRand(r), false), c06PipeLink(), false, 40*time.Second)
		c06Judge(c, run)
		if run.stalled {
			return
		}
	}
}

// door: overlapping pairs of all implementations (package-level state shared
// between instances would show here), collector running almost continuously
func c06DoorConcurrent(c *Ctx) {
	old := debug.SetGCPercent(1)
	defer debug.SetGCPercent(old)
	var runs []*c06DRun
	var wg sync.WaitGroup
	for round := 0; round < 2; round++ {
		for ci, im := range c06Impls() {
			r := c.rng.Fork()
			shared := round == 1 && im.name != "co" && im.name != "rsa-1024"
			name := im.name
			if shared {
				name += "-shared"
			}
			run := &c06DRun{name: fmt.Sprintf("door-concurrent-%s-%d", name, round), impl: name, door: "concurrent", rot: im.rot}
			sizes := []int{5, 64, 130}
			if im.name == "rsa-1024" {
				sizes = []int{2, 5}
			}
			for bi, n := range sizes {
				run.batches = append(run.batches, c06MkDBatch(r, n, c06Patterns[(bi+ci+round)%3], bi == 1, bi == 0))
			}
			runs = append(runs, run)
			snd, rcv := im.mk(c06PlainRand(r), shared), im.mk(c06PlainRand(r), shared)
			var link *c06Link
			if (ci+round)%2 == 0 {
				link = c06PipeLink()
			} else {
				link, _, _ = c06ConnLink(0)
			}
			wg.Add(1)
			go func() {
				defer wg.Done()
				c06Exec(run, snd, rcv, link, shared, 60*time.Second)
			}()
		}
	}
	wg.Wait()
	for _, run := range runs {
		c06Judge(c, run)
	}
}

// ---------------------------------------------------------------------------
// door: two parties, each with an IKNP sender and an IKNP receiver on one
// connection (gmw/triples.go), bit batches of the sizes gmw uses, label
// batches in both directions (vole/vole.go), everything judged at the end.

type c06Party struct {
	id   int
	conn *p2p.Conn
	s    *ot.IKNPSender
	r    *ot.IKNPReceiver
	err  error
	// per round
	sBits, rBits, choice [][]uint64
	sExtra, rExtra       []uint64 // the word behind the (n+63)/64 result words, before the call
	sent, rcvd           [][]ot.Label
	flags                [][]bool
}

type c06DuplexRound struct {
	bits bool
	n    int
	mal  bool
}

func (p *c06Party) setup(rd func() io.Reader) error {
	sender := func() error {
		co := ot.NewCO(rd())
		if err := co.InitSender(p.conn); err != nil {
			return err
		}
		var err error
		p.s, err = ot.NewIKNPSender(co, p.conn, rd(), nil)
		return err
	}
	receiver := func() error {
		co := ot.NewCO(rd())
		if err := co.InitReceiver(p.conn); err != nil {
			return err
		}
		var err error
		p.r, err = ot.NewIKNPReceiver(co, p.conn, rd())
		return err
	}
	if p.id == 0 {
		if err := sender(); err != nil {
			return err
		}
		return receiver()
	}
	if err := receiver(); err != nil {
		return err
	}
	return sender()
}

func (p *c06Party) run(r *RNG, rounds []c06DuplexRound) error {
	for _, rd := range rounds {
		words := (rd.n + 63) / 64
		asSender := func() error {
			if rd.bits {
				buf := make([]uint64, words+1)
				for i := range buf {
					buf[i] = r.U64()
				}
				p.sBits = append(p.sBits, buf)
				p.sExtra = append(p.sExtra, buf[words])
				if err := p.s.SendBits(rd.n, buf); err != nil {
					return err
				}
				// other traffic on the same connection, as gmw does (u, then v back)
				if err := p.conn.SendData([]byte{1, 2, 3}); err != nil {
					return err
				}
				if err := p.conn.Flush(); err != nil {
					return err
				}
				_, err := p.conn.ReceiveData()
				return err
			}
			l, err := p.s.Send(rd.n, rd.mal)
			p.sent = append(p.sent, l)
			return err
		}
		asReceiver := func() error {
			if rd.bits {
				ch := make([]uint64, words+2) // longer than needed, garbage above n
				res := make([]uint64, words+1)
				for i := range ch {
					ch[i] = r.U64()
				}
				for i := range res {
					res[i] = r.U64()
				}
				p.choice = append(p.choice, append([]uint64(nil), ch...))
				p.rBits = append(p.rBits, res)
				p.rExtra = append(p.rExtra, res[words])
				if err := p.r.ReceiveBits(ch, res, rd.n); err != nil {
					return err
				}
				if _, err := p.conn.ReceiveData(); err != nil {
					return err
				}
				if err := p.conn.SendData([]byte{4, 5}); err != nil {
					return err
				}
				return p.conn.Flush()
			}
			fl := c06Pattern(r, "random", rd.n)
			res := make([]ot.Label, rd.n)
			p.flags = append(p.flags, fl)
			p.rcvd = append(p.rcvd, res)
			return p.r.Receive(fl, res, rd.mal)
		}
		first, second := asSender, asReceiver
		if p.id != 0 {
			first, second = asReceiver, asSender
		}
		if err := first(); err != nil {
			return err
		}
		if err := second(); err != nil {
			return err
		}
	}
	return nil
}

func c06DoorDuplex(c *Ctx, short bool) {
	r := c.rng.Fork()
	frag := 0
	name := "door-duplex"
	if short {
		frag = 5
		name = "door-duplex-shortrand-frag"
	}
	link, ca, cb := c06ConnLink(frag)
	parties := []*c06Party{{id: 0, conn: ca}, {id: 1, conn: cb}}
	rounds := []c06DuplexRound{{true, 100, false}, {false, 1, false}, {true, 4096, false}, {false, 300, false},
		{true, 8192, false}, {false, 64, true}, {true, 1, false}, {true, 513, false}, {false, 1030, false}}
	if short {
		rounds = []c06DuplexRound{{true, 7, false}, {false, 9, false}, {true, 4096, false}, {false, 130, true}, {true, 65, false}}
	}
	var wg sync.WaitGroup
	for _, p := range parties {
		p := p
		pr := r.Fork()
		rd := c06PlainRand(pr)
		if short {
			rd = c06ShortRand(pr)
		}
		wg.Add(1)
		go func() {
			defer wg.Done()
			defer func() {
				if x := recover(); x != nil {
					p.err = fmt.Errorf("panic: %v", x)
					link.kill()
				}
			}()
			if p.err = p.setup(rd); p.err != nil {
				link.kill()
				return
			}
			if p.err = p.run(pr, rounds); p.err != nil {
				link.kill()
			}
		}()
	}
	done := make(chan struct{})
	go func() { wg.Wait(); close(done) }()
	rp := c06Replay{Seed: c.Seed, Case: name, Impl: "iknp/duplex"}
	select {
	case <-done:
	case <-time.After(40 * time.Second):
		link.kill()
		c.Fail("c06:iknp/duplex:stalled", "two IKNP instances in opposite directions on one connection did not terminate", rp)
		return
	}
	if parties[0].err != nil || parties[1].err != nil {
		rp.Detail = fmt.Sprintf("party 0: %v, party 1: %v", parties[0].err, parties[1].err)
		c.Fail("c06:iknp/duplex:error", "IKNP over one shared connection returned an error on an honest run", rp)
		return
	}
	link.done()
	for dir := 0; dir < 2; dir++ {
		snd, rcv := parties[dir], parties[1-dir]
		delta := snd.s.Delta
		d0 := uint64(delta.Bit(0))
		bi, li := 0, 0
		for ri, rd := range rounds {
			rp := c06Replay{Seed: c.Seed, Case: fmt.Sprintf("%s-dir%d", name, dir), Impl: "iknp/duplex", N: rd.n, Pattern: "random", Batch: ri}
			c.Hist("door:duplex:" + c06Bucket(rd.n))
			wrong, first := 0, -1
			if rd.bits {
				s, rr, ch := snd.sBits[bi], rcv.rBits[bi], rcv.choice[bi]
				words := (rd.n + 63) / 64
				if s[words] != snd.sExtra[bi] || rr[words] != rcv.rExtra[bi] {
					rp.Detail = "the word behind the (n+63)/64 result words was modified"
					c.Fail("c06:iknp/duplex:writes-outside-window", "SendBits/ReceiveBits wrote beyond the n bits they were asked for", rp)
				}
				bi++
				c.Eval(fmt.Sprintf("door|duplex|bits|%d|%d|%d|%x|%x", dir, ri, rd.n, delta, ch[0]), true)
				for i := 0; i < rd.n; i++ {
					if (s[i/64]^rr[i/64])>>uint(i%64)&1 != ch[i/64]>>uint(i%64)&1&d0 {
						if first < 0 {
							first = i
						}
						wrong++
					}
				}
				if wrong > 0 {
					rp.Wrong, rp.First = wrong, first
					rp.Detail = fmt.Sprintf("Delta.Bit(0)=%d; r_i != s_i xor b_i*Delta.Bit(0)", d0)
					c.Fail("c06:iknp/duplex:bits:"+c06Class(rd.n), "packed-bit IKNP on a connection shared by two instances violates r = s xor b*Delta.Bit(0)", rp)
				}
				continue
			}
			sent, got, fl := snd.sent[li], rcv.rcvd[li], rcv.flags[li]
			li++
			c.Eval(fmt.Sprintf("door|duplex|labels|%d|%d|%d|%x|%v", dir, ri, rd.n, delta, fl), true)
			if len(sent) != rd.n {
				wrong++
			}
			for i := 0; i < rd.n && i < len(sent); i++ {
				exp := sent[i]
				if fl[i] {
					exp.Xor(delta)
				}
				if !got[i].Equal(exp) {
					if first < 0 {
						first = i
					}
					wrong++
				}
			}
			if wrong > 0 {
				rp.Wrong, rp.First = wrong, first
				c.Fail("c06:iknp/duplex:labels:"+c06Class(rd.n), "IKNP label form on a connection shared by two instances violates received = sent xor choice*Delta", rp)
			}
		}
	}
}

// ---------------------------------------------------------------------------
// door: raw IKNP over the stub base OT with caller-chosen Delta values, result
// windows with canaries, and the caller overwriting the slice Send returned.

func c06DoorRawIKNP(c *Ctx) {
	deltas := []ot.Label{{}, {D0: ^uint64(0), D1: ^uint64(0)}, {D1: 1}, {D0: 1 << 63}}
	for di, delta := range deltas {
		r := c.rng.Fork()
		delta := delta
		stub := newC06Stub()
		link := c06PipeLink()
		sizes := []int{1, 8, 130, 9, 600, 9}
		type res struct {
			sent, big, big0 []ot.Label
			flags           []bool
			pre             int
		}
		out := make([]*res, len(sizes))
		for i, n := range sizes {
			x := &res{pre: i % 3, flags: c06Pattern(r, c06Patterns[(i+di)%3], n)}
			x.big = make([]ot.Label, x.pre+n+2)
			for j := range x.big {
				x.big[j], _ = ot.NewLabel(r)
			}
			x.big0 = append([]ot.Label(nil), x.big...)
			out[i] = x
		}
		var sErr, rErr error
		var wg sync.WaitGroup
		wg.Add(2)
		rs, rr := r.Fork(), r.Fork()
		go func() {
			defer wg.Done()
			defer func() {
				if p := recover(); p != nil {
					sErr = fmt.Errorf("panic: %v", p)
					link.kill()
				}
			}()
			snd, err := ot.NewIKNPSender(stub, link.a, rs, &delta)
			if err != nil {
				sErr = err
				link.kill()
				return
			}
			for i, n := range sizes {
				l, err := snd.Send(n, i == 3)
				if err != nil {
					sErr = err
					link.kill()
					return
				}
				if i%2 == 0 {
					// the caller takes its copy and reuses the returned slice
					out[i].sent = append([]ot.Label(nil), l...)
					for j := range l {
						l[j] = ot.Label{D0: 0xbad, D1: uint64(j)}
					}
				} else {
					out[i].sent = l
				}
			}
		}()
		go func() {
			defer wg.Done()
			defer func() {
				if p := recover(); p != nil {
					rErr = fmt.Errorf("panic: %v", p)
					link.kill()
				}
			}()
			rcv, err := ot.NewIKNPReceiver(stub, link.b, rr)
			if err != nil {
				rErr = err
				link.kill()
				return
			}
			for i, n := range sizes {
				x := out[i]
				if rErr = rcv.Receive(append([]bool(nil), x.flags...), x.big[x.pre:x.pre+n], i == 3); rErr != nil {
					link.kill()
					return
				}
			}
		}()
		done := make(chan struct{})
		go func() { wg.Wait(); close(done) }()
		name := fmt.Sprintf("door-raw-iknp-delta%d", di)
		rp := c06Replay{Seed: c.Seed, Case: name, Impl: "iknp/raw"}
		select {
		case <-done:
		case <-time.After(60 * time.Second):
			link.kill()
			c.Fail("c06:iknp/raw:stalled", "IKNP session did not terminate", rp)
			continue
		}
		if sErr != nil || rErr != nil {
			rp.Detail = fmt.Sprintf("sender: %v, receiver: %v", sErr, rErr)
			c.Fail("c06:iknp/raw:error", "IKNP returned an error on an honest run", rp)
			continue
		}
		for i, n := range sizes {
			x := out[i]
			rp := c06Replay{Seed: c.Seed, Case: name, Impl: "iknp/raw", N: n, Batch: i, Detail: fmt.Sprintf("Delta=%x", delta)}
			c.Hist("door:raw-iknp")
			c.Eval(fmt.Sprintf("door|raw|%d|%d|%x|%v", i, n, delta, x.flags), true)
			wrong, first := 0, -1
			if len(x.sent) != n {
				wrong++
			}
			for j := 0; j < n && j < len(x.sent); j++ {
				exp := x.sent[j]
				if x.flags[j] {
					exp.Xor(delta)
				}
				if !x.big[x.pre+j].Equal(exp) {
					if first < 0 {
						first = j
					}
					wrong++
				}
			}
			if wrong > 0 {
				rp.Wrong, rp.First = wrong, first
				c.Fail("c06:iknp/raw:labels:"+c06Class(n), "IKNP label form violates received = sent xor choice*Delta", rp)
			}
			outside := 0
			for j := range x.big {
				if (j < x.pre || j >= x.pre+n) && !x.big[j].Equal(x.big0[j]) {
					outside++
				}
			}
			if outside > 0 {
				rp.Wrong = outside
				c.Fail("c06:iknp/raw:writes-outside-window", "IKNPReceiver.Receive wrote outside result[off:off+n]", rp)
			}
		}
	}
}

// ---------------------------------------------------------------------------
// door: the legacy RSA transfer objects (apps/ot/main.go, p2p.Conn.Receive)

func c06DoorLegacyRSA(c *Ctx) {
	for vi, short := range []bool{false, true} {
		r := c.rng.Fork()
		rd := c06PlainRand(r)
		if short {
			rd = c06ShortRand(r)
		}
		tag := "rsa-legacy"
		rp := c06Replay{Seed: c.Seed, Case: fmt.Sprintf("door-legacy-rsa-%d", vi), Impl: tag}
		sender, err := ot.NewSender(rd(), 1024)
		if err != nil {
			rp.Detail = err.Error()
			c.Fail("c06:"+tag+":error", "ot.NewSender failed", rp)
			continue
		}
		receiver, err := ot.NewReceiver(rd(), sender.PublicKey())
		if err != nil {
			rp.Detail = err.Error()
			c.Fail("c06:"+tag+":error", "ot.NewReceiver failed", rp)
			continue
		}
		max := sender.MessageSize() - 11
		sizes := []int{16, 16, 1, max, 15, 17, 16, 32}
		type xf struct {
			m0, m1 []byte
			bit    uint
			s      *ot.SenderXfer
			r      *ot.ReceiverXfer
		}
		var xs []*xf
		fail := func(what string, err error) {
			rp.Detail = fmt.Sprintf("%s: %v", what, err)
			c.Fail("c06:"+tag+":error", "legacy RSA transfer failed on an honest run", rp)
		}
		okAll := true
		// all transfers are opened first, advanced step by step in different
		// orders, and their results are read at the very end
		for i, sz := range sizes {
			x := &xf{m0: r.Bytes(sz), m1: r.Bytes(sz), bit: uint(i+vi) % 2}
			if i == 4 {
				x.m0[0], x.m1[0] = 0, 0 // leading zero bytes
			}
			if i == 6 {
				x.m1 = append([]byte(nil), x.m0...)
			}
			var e1, e2 error
			x.s, e1 = sender.NewTransfer(append([]byte(nil), x.m0...), append([]byte(nil), x.m1...))
			x.r, e2 = receiver.NewTransfer(x.bit)
			if e1 != nil || e2 != nil {
				fail("NewTransfer", fmt.Errorf("%v / %v", e1, e2))
				okAll = false
				break
			}
			xs = append(xs, x)
		}
		if !okAll {
			continue
		}
		for i := range xs {
			x := xs[i]
			if err := x.r.ReceiveRandomMessages(x.s.RandomMessages()); err != nil {
				fail("ReceiveRandomMessages", err)
				okAll = false
			}
		}
		for i := len(xs) - 1; i >= 0 && okAll; i-- {
			xs[i].s.ReceiveV(xs[i].r.V())
		}
		for i := 0; i < len(xs) && okAll; i++ {
			x := xs[(i*3)%len(xs)]
			if err := x.r.ReceiveMessages(x.s.Messages()); err != nil {
				fail("ReceiveMessages", err)
				okAll = false
			}
		}
		if !okAll {
			continue
		}
		for i, x := range xs {
			m, bit := x.r.Message()
			want := x.m0
			if x.bit != 0 {
				want = x.m1
			}
			c.Hist("door:legacy-rsa")
			c.Eval(fmt.Sprintf("door|legacy-rsa|%d|%d|%x", vi, i, x.m0), true)
			if bit != x.bit || !bytes.Equal(m, want) {
				rp := rp
				rp.N, rp.Batch = len(x.m0), i
				rp.Detail = fmt.Sprintf("bit %d: got %x want %x", x.bit, m, want)
				c.Fail("c06:"+tag+":wrong-message", "ReceiverXfer.Message is not the sender's message selected by the bit", rp)
			}
		}
		// p2p.Conn.Receive drives the receiver's side; the sender's side is
		// played here with a SenderXfer per wire
		link, ca, cb := c06ConnLink(3 * vi)
		wires := 5
		type wres struct {
			m0, m1, got []byte
			bit         uint
		}
		ws := make([]*wres, wires)
		for i := range ws {
			ws[i] = &wres{m0: r.Bytes(16), m1: r.Bytes(16), bit: uint(i/2+vi) % 2}
		}
		var sErr, rErr error
		var wg sync.WaitGroup
		wg.Add(2)
		go func() {
			defer wg.Done()
			defer func() {
				if p := recover(); p != nil {
					sErr = fmt.Errorf("panic: %v", p)
					link.kill()
				}
			}()
			for range ws {
				wire, err := ca.ReceiveUint32()
				if err != nil || wire < 0 || wire >= wires {
					sErr = fmt.Errorf("wire index %d: %v", wire, err)
					link.kill()
					return
				}
				x, err := sender.NewTransfer(ws[wire].m0, ws[wire].m1)
				if err != nil {
					sErr = err
					link.kill()
					return
				}
				x0, x1 := x.RandomMessages()
				ca.SendData(x0)
				ca.SendData(x1)
				ca.Flush()
				v, err := ca.ReceiveData()
				if err != nil {
					sErr = err
					link.kill()
					return
				}
				x.ReceiveV(v)
				m0p, m1p, err := x.Messages()
				if err != nil {
					sErr = err
					link.kill()
					return
				}
				ca.SendData(m0p)
				ca.SendData(m1p)
				ca.Flush()
			}
		}()
		go func() {
			defer wg.Done()
			defer func() {
				if p := recover(); p != nil {
					rErr = fmt.Errorf("panic: %v", p)
					link.kill()
				}
			}()
			for k := range ws {
				wire := (k * 2) % wires
				ws[wire].got, rErr = cb.Receive(receiver, uint(wire), ws[wire].bit)
				if rErr != nil {
					link.kill()
					return
				}
			}
		}()
		done := make(chan struct{})
		go func() { wg.Wait(); close(done) }()
		select {
		case <-done:
		case <-time.After(60 * time.Second):
			link.kill()
			c.Fail("c06:"+tag+"/conn:stalled", "p2p.Conn.Receive session did not terminate", rp)
			continue
		}
		if sErr != nil || rErr != nil {
			rp.Detail = fmt.Sprintf("sender: %v, receiver: %v", sErr, rErr)
			c.Fail("c06:"+tag+"/conn:error", "p2p.Conn.Receive failed on an honest run", rp)
			continue
		}
		link.done()
		for i, w := range ws {
			want := w.m0
			if w.bit != 0 {
				want = w.m1
			}
			c.Hist("door:legacy-rsa-conn")
			c.Eval(fmt.Sprintf("door|legacy-rsa-conn|%d|%d|%x", vi, i, w.m0), true)
			if !bytes.Equal(w.got, want) {
				rp := rp
				rp.N, rp.Batch = 16, i
				rp.Detail = fmt.Sprintf("wire %d bit %d: got %x want %x", i, w.bit, w.got, want)
				c.Fail("c06:"+tag+"/conn:wrong-message", "p2p.Conn.Receive did not return the message selected by the bit", rp)
			}
		}
	}
}

// ---------------------------------------------------------------------------
// door: CO helper functions on the other curves, one sender setup serving
// several receivers, arguments overwritten after the calls, results read
// later; overlapping single transfers on long-lived COSender / COReceiver.

func c06DoorHelpers(c *Ctx) {
	curves := []elliptic.Curve{elliptic.P224(), elliptic.P384(), elliptic.P521(), elliptic.P256()}
	for ci, curve := range curves {
		r := c.rng.Fork()
		tag := "co-helpers/" + curve.Params().Name
		rp := c06Replay{Seed: c.Seed, Case: "door-helpers-" + curve.Params().Name, Impl: tag}
		setup, err := ot.GenerateCOSenderSetup(&c06ShortReader{r: r.Fork()}, curve)
		if err != nil {
			rp.Detail = err.Error()
			c.Fail("c06:"+tag+":error", "GenerateCOSenderSetup failed", rp)
			continue
		}
		type rcvr struct {
			flags0  []bool
			wires0  []ot.Wire
			bundle  ot.COChoiceBundle
			cts     []ot.LabelCiphertext
			labels  []ot.Label
			special bool
		}
		sizes := []int{3, 1, 9}
		if ci == 3 {
			sizes = []int{2, 300, 17} // P-256: positions beyond 255 with a shared setup
		}
		var rs []*rcvr
		bad := false
		for k, n := range sizes {
			b := c06MkDBatch(r, n, c06Patterns[(k+ci)%3], k == 0, false)
			x := &rcvr{flags0: b.flags0, wires0: append([]ot.Wire(nil), b.bigW[b.pre:b.pre+n]...)}
			flags := append([]bool(nil), b.flags0...)
			bundle, points, err := ot.BuildCOChoices(r, curve, setup.Ax, setup.Ay, flags)
			if err != nil {
				rp.Detail = err.Error()
				c.Fail("c06:"+tag+":error", "BuildCOChoices failed on honest inputs", rp)
				bad = true
				break
			}
			for i := range flags { // the caller reuses its bit buffer
				flags[i] = !flags[i]
			}
			x.bundle = bundle
			wires := b.bigW[b.pre : b.pre+n]
			x.cts, err = ot.EncryptCOCiphertexts(curve, setup, points, wires)
			if err != nil {
				rp.Detail = err.Error()
				c.Fail("c06:"+tag+":error", "EncryptCOCiphertexts failed on honest inputs", rp)
				bad = true
				break
			}
			for i := range wires {
				wires[i] = ot.Wire{}
			}
			rs = append(rs, x)
		}
		if bad {
			continue
		}
		// decrypt in reverse order, after every bundle was built and encrypted
		for k := len(rs) - 1; k >= 0 && !bad; k-- {
			rs[k].labels, err = ot.DecryptCOCiphertexts(curve, rs[k].bundle, rs[k].cts)
			if err != nil {
				rp.Detail = err.Error()
				c.Fail("c06:"+tag+":error", "DecryptCOCiphertexts failed on honest inputs", rp)
				bad = true
			}
		}
		if bad {
			continue
		}
		for k, x := range rs {
			n := len(x.flags0)
			c.Hist("door:helpers:" + curve.Params().Name)
			c.Eval(fmt.Sprintf("door|helpers|%s|%d|%v|%v", curve.Params().Name, k, x.flags0, x.wires0[0]), true)
			wrong, first := 0, -1
			for i := 0; i < n; i++ {
				exp := x.wires0[i].L0
				if x.flags0[i] {
					exp = x.wires0[i].L1
				}
				if i >= len(x.labels) || !x.labels[i].Equal(exp) {
					if first < 0 {
						first = i
					}
					wrong++
				}
			}
			if wrong > 0 {
				rp := rp
				rp.N, rp.Batch, rp.Wrong, rp.First = n, k, wrong, first
				c.Fail("c06:"+tag+":wrong-label:"+c06Class(n), "DecryptCOCiphertexts(EncryptCOCiphertexts(BuildCOChoices)) is not the chosen label", rp)
			}
		}
	}
	// single transfers: long-lived sender / receiver objects, four transfers in flight
	r := c.rng.Fork()
	sender := ot.NewCOSender(&c06ShortReader{r: r.Fork()})
	receiver := ot.NewCOReceiver(r.Fork(), sender.Curve())
	type xf struct {
		m0, m1, got []byte
		bit         uint
		s           *ot.COSenderXfer
		r           *ot.COReceiverXfer
	}
	var xs []*xf
	rp := c06Replay{Seed: c.Seed, Case: "door-co-xfer-overlap", Impl: "co-xfer/overlap"}
	for i, sz := range []int{16, 16, 1, 32} {
		x := &xf{m0: r.Bytes(sz), m1: r.Bytes(sz), bit: uint(i) % 2}
		var e1, e2 error
		x.s, e1 = sender.NewTransfer(append([]byte(nil), x.m0...), append([]byte(nil), x.m1...))
		x.r, e2 = receiver.NewTransfer(x.bit)
		if e1 != nil || e2 != nil {
			c.Fail("c06:co-xfer/overlap:error", "NewTransfer failed", rp)
			return
		}
		xs = append(xs, x)
	}
	for _, x := range xs {
		x.r.ReceiveA(x.s.A())
	}
	for i := len(xs) - 1; i >= 0; i-- {
		xs[i].s.ReceiveB(xs[i].r.B())
	}
	for _, i := range []int{2, 0, 3, 1} {
		xs[i].got = xs[i].r.ReceiveE(xs[i].s.E())
	}
	for i, x := range xs {
		want := x.m0
		if x.bit != 0 {
			want = x.m1
		}
		c.Hist("door:co-xfer-overlap")
		c.Eval(fmt.Sprintf("door|co-xfer-overlap|%d|%x", i, x.m0), true)
		if !bytes.Equal(x.got, want) {
			rp := rp
			rp.N, rp.Batch = len(x.m0), i
			rp.Detail = fmt.Sprintf("got %x want %x", x.got, want)
			c.Fail("c06:co-xfer/overlap:wrong-message", "COReceiverXfer.ReceiveE is not the chosen message", rp)
		}
	}
}

// ---------------------------------------------------------------------------
// door: a session that dies half way (the peer goes away before the batch),
// then the same objects are initialised again on a new connection.

func c06DoorRetry(c *Ctx) {
	for _, im := range c06Impls()[:2] { // CO and RSA objects can be initialised again
		r := c.rng.Fork()
		snd, rcv := im.mk(c06PlainRand(r), false), im.mk(c06PlainRand(r), false)
		// session 1: both sides initialise, the sender goes away, Receive fails
		link := c06PipeLink()
		var wg sync.WaitGroup
		wg.Add(2)
		var e1 error
		go func() {
			defer wg.Done()
			defer func() { recover() }()
			snd.InitSender(link.a)
			link.kill()
		}()
		go func() {
			defer wg.Done()
			defer func() {
				if p := recover(); p != nil {
					e1 = fmt.Errorf("panic: %v", p)
				}
			}()
			if e1 = rcv.InitReceiver(link.b); e1 != nil {
				return
			}
			res := make([]ot.Label, 3)
			e1 = rcv.Receive([]bool{true, false, true}, res)
		}()
		done := make(chan struct{})
		go func() { wg.Wait(); close(done) }()
		select {
		case <-done:
		case <-time.After(30 * time.Second):
			link.kill()
			<-done
		}
		c.Hist("door:retry:" + im.name)
		if e1 == nil {
			c.Fail("c06:"+im.name+"/retry:no-error", "Receive succeeded although the sender went away before sending",
				c06Replay{Seed: c.Seed, Case: "door-retry-" + im.name, Impl: im.name + "/retry", N: 3})
		}
		// session 2 on a new connection, in the same roles; session 3 reversed
		for s, swap := range []bool{false, true} {
			a, b := snd, rcv
			if swap {
				a, b = rcv, snd
			}
			run := &c06DRun{name: fmt.Sprintf("door-retry-%s-session%d", im.name, s+2), impl: im.name, door: "retry", rot: im.rot}
			run.batches = []*c06DBatch{c06MkDBatch(r, 4+s, "random", false, false), c06MkDBatch(r, 2, "all1", true, true)}
			c06Exec(run, a, b, c06PipeLink(), false, 60*time.Second)
			c06Judge(c, run)
		}
	}
}

// c06Guard turns a panic inside a door (on the harness goroutine) into an oracle failure.
func c06Guard(c *Ctx, door string, f func()) {
	defer func() {
		if p := recover(); p != nil {
			c.Fail("c06:"+door+":panic", "the code panicked on honest inputs",
				c06Replay{Seed: c.Seed, Case: "door-" + door, Impl: door, Detail: fmt.Sprint(p)})
		}
	}()
	f()
}

func c06Doors(c *Ctx) error {
	c06Guard(c, "conn", func() { c06DoorConn(c) })
	c06Guard(c, "base", func() { c06DoorBase(c) })
	c06Guard(c, "short-rand", func() { c06DoorShortRand(c) })
	c06Guard(c, "concurrent", func() { c06DoorConcurrent(c) })
	c06Guard(c, "iknp/duplex", func() { c06DoorDuplex(c, false) })
	c06Guard(c, "iknp/duplex", func() { c06DoorDuplex(c, true) })
	c06Guard(c, "iknp/raw", func() { c06DoorRawIKNP(c) })
	c06Guard(c, "apps/ot", func() { c06DoorAppsOT(c) }) // c06apps.go
	// one scheduler thread for the remaining doors (everything above ran with the default)
	oldProcs := runtime.GOMAXPROCS(1)
	defer runtime.GOMAXPROCS(oldProcs)
	c06Guard(c, "rsa-legacy", func() { c06DoorLegacyRSA(c) })
	c06Guard(c, "co-helpers", func() { c06DoorHelpers(c) })
	c06Guard(c, "retry", func() { c06DoorRetry(c) })
	return nil
}
