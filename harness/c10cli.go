package main

// C10, command-line family: apps/garbled -gmw (gmwMode) built from the tree
// under test.  A GMW leader is kept running with -loop and serves several
// rounds; the peer comes with inputs of sizes s1, s2 != s1, s1 for a program
// with unsized ([]byte) arguments, so every round needs the circuit compiled
// for THAT round's input sizes.  Every party's printed result of every round
// is compared with Circuit.Compute of the circuit compiled here for the
// round's sizes (and with a plain Go evaluation of the program).  Oracle
// only: the CLI loop is outside the Coq model.

import (
	"bufio"
	"bytes"
	"fmt"
	"math/big"
	"net"
	"os"
	"os/exec"
	"path/filepath"
	"regexp"
	"strings"
	"syscall"
	"time"

	"github.com/markkurossi/mpc/circuit"
	"github.com/markkurossi/mpc/compiler"
	"github.com/markkurossi/mpc/compiler/utils"
)

// c10BuildCLI builds apps/garbled of the tree under test ($VERIF_REPO,
// default /repo) into the run directory.  -mod=readonly: the tree is never
// written.
func c10BuildCLI(c *Ctx) (string, error) {
	repo := os.Getenv("VERIF_REPO")
	if repo == "" {
		repo = "/repo"
	}
	out, err := filepath.Abs(filepath.Join(c.OutDir, "c10-gmw-cli"))
	if err != nil {
		return "", err
	}
	cmd := exec.Command("go", "build", "-o", out, "./apps/garbled")
	cmd.Dir = repo
	var env []string
	for _, e := range os.Environ() {
		if !strings.HasPrefix(e, "GOFLAGS=") {
			env = append(env, e)
		}
	}
	cmd.Env = append(env, "GOFLAGS=-mod=readonly", "GOPROXY=off")
	if b, err := cmd.CombinedOutput(); err != nil {
		return "", fmt.Errorf("go build apps/garbled in %s: %v\n%s", repo, err, b)
	}
	return out, nil
}

type c10CLIReplay struct {
	Seed    uint64   `json:"seed"`
	Family  string   `json:"family"`
	Program string   `json:"program"`
	Round   int      `json:"round"`
	Args    []string `json:"inputs_of_the_round"` // -i of party 0, 1, ...
	History []string `json:"rounds_so_far"`
	Got     []string `json:"printed_results,omitempty"`
	Want    string   `json:"want,omitempty"`
	Detail  string   `json:"detail,omitempty"`
}

var c10ReResult = regexp.MustCompile(`^Result\[0\]: (-?[0-9a-fA-F]+)`)

func c10FreeAddr() (string, error) {
	for try := 0; try < 20; try++ {
		l, err := net.Listen("tcp", "127.0.0.1:0")
		if err != nil {
			return "", err
		}
		a := l.Addr().String()
		l.Close()
		if !strings.HasSuffix(a, ":9000") {
			return a, nil
		}
	}
	return "", fmt.Errorf("no free port")
}

// a child in its own process group, under coreutils timeout so that it also
// dies when the harness itself is killed
type c10Child struct {
	cmd *exec.Cmd
	out bytes.Buffer
}

func c10Start(dir string, limit int, bin string, stdout *os.File, args ...string) (*c10Child, error) {
	ch := &c10Child{}
	full := append([]string{"-k", "1", fmt.Sprint(limit), bin}, args...)
	ch.cmd = exec.Command("timeout", full...)
	ch.cmd.Dir = dir
	ch.cmd.SysProcAttr = &syscall.SysProcAttr{Setpgid: true}
	if stdout != nil {
		ch.cmd.Stdout = stdout
		ch.cmd.Stderr = stdout
	} else {
		ch.cmd.Stdout = &ch.out
		ch.cmd.Stderr = &ch.out
	}
	if err := ch.cmd.Start(); err != nil {
		return nil, err
	}
	return ch, nil
}

func (ch *c10Child) kill() {
	if ch == nil || ch.cmd == nil || ch.cmd.Process == nil {
		return
	}
	syscall.Kill(-ch.cmd.Process.Pid, syscall.SIGKILL)
	ch.cmd.Process.Kill()
}

// wait with a deadline; false = had to be killed
func (ch *c10Child) wait(d time.Duration) (error, bool) {
	done := make(chan error, 1)
	go func() { done <- ch.cmd.Wait() }()
	select {
	case err := <-done:
		return err, true
	case <-time.After(d):
		ch.kill()
		<-done
		return fmt.Errorf("killed after %v", d), false
	}
}

func c10ParseResult(out string) (string, bool) {
	s := bufio.NewScanner(strings.NewReader(out))
	for s.Scan() {
		if m := c10ReResult.FindStringSubmatch(s.Text()); m != nil {
			return m[1], true
		}
	}
	return "", false
}

type c10CLIProg struct {
	name  string
	src   string
	plain func(in [][]byte) uint64 // nil: Circuit.Compute only
	// asCircuitFile: the parties get the compiled circuit as a .mpclc file
	// (Circuit.Marshal here, circuit.Parse + AssignLevels in loadCircuit)
	asCircuitFile bool
	leaderFlags   []string // e.g. -v
}

var c10CLIFold = c10CLIProg{name: "fold", src: `package main

func main(a, b []byte) uint32 {
	var sum uint32
	for i := 0; i < len(a); i++ {
		sum ^= uint32(a[i]) << (8 * (i % 4))
	}
	for i := 0; i < len(b); i++ {
		sum ^= uint32(b[i]) << (8 * (i % 4))
	}
	return sum ^ uint32(a[0]&b[0])
}
`, plain: func(in [][]byte) uint64 {
	var sum uint32
	for _, v := range in {
		for i, x := range v {
			sum ^= uint32(x) << (8 * (uint(i) % 4))
		}
	}
	return uint64(sum ^ uint32(in[0][0]&in[1][0]))
}}

var c10CLISum = c10CLIProg{name: "bytesum", src: `package main

func main(a, b []byte) uint32 {
	var sum uint32
	for i := 0; i < len(a); i++ {
		sum += uint32(a[i])
	}
	for i := 0; i < len(b); i++ {
		sum += uint32(b[i]) * 3
	}
	return sum
}
`, plain: func(in [][]byte) uint64 {
	var sum uint32
	for _, x := range in[0] {
		sum += uint32(x)
	}
	for _, x := range in[1] {
		sum += uint32(x) * 3
	}
	return uint64(sum)
}}

var c10CLIFixed = c10CLIProg{name: "fixed-uint32", src: `package main

func main(a, b uint32) uint32 {
	return a*b + a
}
`}

var c10CLIThree = c10CLIProg{name: "three-uint16", src: `package main

func main(a, b, c uint16) uint16 {
	return a + b*c
}
`}

// reference: the program compiled here for the round's input sizes,
// evaluated by Circuit.Compute on the parsed -i values
func c10CLIWant(src string, args []string) (string, error) {
	sizes := make([][]int, len(args))
	for i, a := range args {
		s, err := circuit.InputSizes([]string{a})
		if err != nil {
			return "", err
		}
		sizes[i] = s
	}
	params := utils.NewParams()
	params.Target = utils.TargetGMW
	params.Warn.DisableAll()
	defer params.Close()
	var circ *circuit.Circuit
	var err error
	msg := c10Try(func() { circ, _, err = compiler.New(params).Compile(src, sizes) })
	if msg != "" {
		return "", fmt.Errorf("compile panic: %s", msg)
	}
	if err != nil {
		return "", err
	}
	if len(circ.Inputs) != len(args) {
		return "", fmt.Errorf("%d-party circuit for %d inputs", len(circ.Inputs), len(args))
	}
	in := make([]*big.Int, len(args))
	for i, a := range args {
		v, err := circ.Inputs[i].Parse([]string{a})
		if err != nil {
			return "", err
		}
		in[i] = v
	}
	res, err := circ.Compute(in)
	if err != nil {
		return "", err
	}
	return res[0].Text(10), nil
}

func c10HexBytes(b []byte) string { return fmt.Sprintf("0x%x", b) }

func c10Tail(s string) string {
	if len(s) > 1200 {
		return "..." + s[len(s)-1200:]
	}
	return s
}

// c10CLIFamily: a leader (with -loop when there are several rounds) and the
// peers of every round.  rounds[k] = the -i values of parties 1.. of round k.
func c10CLIFamily(c *Ctx, bin, dir, family string, prog c10CLIProg, leaderArg string, rounds [][]string,
	raw func(arg string) []byte) {
	file := filepath.Join(dir, "c10-"+prog.name+".mpcl")
	os.WriteFile(file, []byte(prog.src), 0o644)
	if prog.asCircuitFile {
		params := utils.NewParams()
		params.Target = utils.TargetGMW
		params.Warn.DisableAll()
		var circ *circuit.Circuit
		var cerr error
		msg := c10Try(func() { circ, _, cerr = compiler.New(params).Compile(prog.src, nil) })
		params.Close()
		if msg != "" || cerr != nil {
			c.Note("cli %s: compile: %v %s", family, cerr, msg)
			return
		}
		var buf bytes.Buffer
		if err := circ.Marshal(&buf); err != nil {
			c.Note("cli %s: Marshal: %v", family, err)
			return
		}
		file = filepath.Join(dir, "c10-"+prog.name+".mpclc")
		os.WriteFile(file, buf.Bytes(), 0o644)
	}
	n := 1 + len(rounds[0])
	addrs := make([]string, n)
	for i := range addrs {
		a, err := c10FreeAddr()
		if err != nil {
			c.Note("cli: %v", err)
			return
		}
		addrs[i] = a
	}
	const roundLimit = 20 * time.Second
	pr, pw, err := os.Pipe()
	if err != nil {
		return
	}
	largs := []string{"-gmw", "0", "-num-parties", fmt.Sprint(n), "-addr", addrs[0]}
	if len(rounds) > 1 {
		largs = append(largs, "-loop")
	}
	largs = append(largs, prog.leaderFlags...)
	largs = append(largs, "-i", leaderArg, file)
	leader, err := c10Start(dir, 25*len(rounds)+10, bin, pw, largs...)
	pw.Close()
	if err != nil {
		pr.Close()
		c.Note("cli: cannot start the leader: %v", err)
		return
	}
	defer func() {
		leader.kill()
		leader.cmd.Wait()
		pr.Close()
	}()
	leaderRes := make(chan string, 64)
	logc := make(chan string, 1)
	go func() {
		var leaderLog bytes.Buffer
		s := bufio.NewScanner(pr)
		for s.Scan() {
			line := s.Text()
			if leaderLog.Len() < 8000 {
				leaderLog.WriteString(line + "\n")
			}
			if m := c10ReResult.FindStringSubmatch(line); m != nil {
				leaderRes <- m[1]
			}
		}
		logc <- leaderLog.String()
		close(leaderRes)
	}()
	leaderOutput := func() string {
		leader.kill()
		select {
		case s := <-logc:
			return c10Tail(s)
		case <-time.After(2 * time.Second):
			return "(leader output not available)"
		}
	}
	var history []string
	for k, peers := range rounds {
		args := append([]string{leaderArg}, peers...)
		history = append(history, fmt.Sprintf("round %d: -i %s", k, strings.Join(args, " | ")))
		rp := c10CLIReplay{Seed: c.Seed, Family: family, Program: prog.src, Round: k, Args: args, History: append([]string(nil), history...)}
		want, werr := c10CLIWant(prog.src, args)
		if werr != nil {
			c.Note("cli %s round %d: reference: %v", family, k, werr)
			return
		}
		if prog.plain != nil && raw != nil {
			in := make([][]byte, len(args))
			for i, a := range args {
				in[i] = raw(a)
			}
			if pv := fmt.Sprint(prog.plain(in)); pv != want {
				rp.Want = pv
				rp.Got = []string{want}
				c.Fail("c10:cli:reference:Compute-differs-from-plain-go", "Circuit.Compute of the program compiled for the round's sizes differs from the plain Go evaluation", rp)
				return
			}
		}
		rp.Want = want
		c.Eval(fmt.Sprintf("cli|%s|%d|%s", family, k, strings.Join(args, "|")), true)
		c.Hist("kind:cli-" + family)
		deadline := time.Now().Add(roundLimit)
		// the peers of the round; a peer that finds the leader not yet
		// listening again is restarted
		got := make([]string, n)
		failKind, failDetail := "", ""
		type peerRes struct {
			id   int
			out  string
			err  error
			hang bool
		}
		resc := make(chan peerRes, n)
		for p := 1; p < n; p++ {
			go func(p int) {
				var last peerRes
				for try := 0; try < 40; try++ {
					left := time.Until(deadline)
					if left <= 0 {
						last.hang = true
						break
					}
					ch, err := c10Start(dir, 25, bin, nil, "-gmw", fmt.Sprint(p), "-leader", addrs[0], "-addr", addrs[p], "-i", args[p], file)
					if err != nil {
						last = peerRes{err: err}
						break
					}
					werr, finished := ch.wait(left)
					last = peerRes{out: ch.out.String(), err: werr, hang: !finished}
					if werr == nil || !finished {
						break
					}
					if strings.Contains(last.out, "connection refused") || strings.Contains(last.out, "address already in use") {
						time.Sleep(150 * time.Millisecond)
						continue
					}
					break
				}
				last.id = p
				resc <- last
			}(p)
		}
		for p := 1; p < n; p++ {
			r := <-resc
			switch {
			case r.hang:
				failKind, failDetail = "hang", fmt.Sprintf("party %d did not finish within %v; its output:\n%s", r.id, roundLimit, c10Tail(r.out))
			case r.err != nil:
				if failKind == "" {
					failKind, failDetail = "error", fmt.Sprintf("party %d: %v; its output:\n%s", r.id, r.err, c10Tail(r.out))
				}
			default:
				v, ok := c10ParseResult(r.out)
				if !ok && failKind == "" {
					failKind, failDetail = "error", fmt.Sprintf("party %d printed no result:\n%s", r.id, c10Tail(r.out))
				}
				got[r.id] = v
			}
		}
		// the leader's result of this round
		if failKind != "hang" {
			wait := time.Until(deadline)
			if wait < time.Second {
				wait = time.Second
			}
			if failKind != "" {
				wait = 2 * time.Second
			}
			select {
			case v, ok := <-leaderRes:
				if ok {
					got[0] = v
				} else if failKind == "" {
					failKind, failDetail = "error", "the leader terminated without a result"
				}
			case <-time.After(wait):
				if failKind == "" {
					failKind, failDetail = "hang", fmt.Sprintf("no result from the leader within %v", roundLimit)
				}
			}
		}
		rp.Got = got
		if failKind == "" {
			for p := 0; p < n; p++ {
				if got[p] != want {
					failKind = "wrong-result"
					failDetail = fmt.Sprintf("party %d printed %s, plain evaluation of the program compiled for this round's input sizes: %s", p, got[p], want)
					break
				}
			}
		}
		if failKind != "" {
			rp.Detail = failDetail
			if failKind != "wrong-result" {
				rp.Detail += "\nleader output:\n" + leaderOutput()
			}
			c.Fail(fmt.Sprintf("c10:cli:%s:round%d:%s", family, k, failKind), "apps/garbled -gmw: a party's printed result of a round is not the plain evaluation", rp)
			return
		}
	}
}

// c10CLI: the command-line families of every run.
func c10CLI(c *Ctx) error {
	bin, err := c10BuildCLI(c)
	if err != nil {
		return err
	}
	dir, err := filepath.Abs(c.OutDir)
	if err != nil {
		return err
	}
	r := c.rng.Fork()
	raw := func(arg string) []byte {
		v, _ := new(big.Int).SetString(strings.TrimPrefix(arg, "0x"), 16)
		b := v.Bytes()
		for len(b) < (len(arg)-2)/2 {
			b = append([]byte{0}, b...)
		}
		return b
	}
	nonzero := func(k int) []byte {
		b := r.Bytes(k)
		if b[0] < 0x10 {
			b[0] |= 0x50 // keep the hex literal's length = the input size
		}
		return b
	}
	// (1) -loop leader, unsized arguments, peer sizes s1, s2 != s1, s1
	prog := c10CLIFold
	if (c.Seed+uint64(r.Intn(2)))%2 == 1 {
		prog = c10CLISum
	}
	s1 := r.Range(1, 4)
	s2 := s1 + r.Range(1, 5)
	if r.Bool() {
		s1, s2 = s2, s1
	}
	c10CLIFamily(c, bin, dir, "gmw-loop", prog, c10HexBytes(nonzero(r.Range(1, 4))),
		[][]string{{c10HexBytes(nonzero(s1))}, {c10HexBytes(nonzero(s2))}, {c10HexBytes(nonzero(s1))}}, raw)
	// (2) -loop leader, fixed-size arguments, two rounds
	c10CLIFamily(c, bin, dir, "gmw-loop-fixed", c10CLIFixed, fmt.Sprint(1+r.Intn(100000)),
		[][]string{{fmt.Sprint(r.Intn(100000))}, {fmt.Sprint(r.Intn(1 << 30))}}, nil)
	// (3) three parties, one round, verbose leader (-v)
	three := c10CLIThree
	three.leaderFlags = []string{"-v"}
	c10CLIFamily(c, bin, dir, "gmw-3party", three, fmt.Sprint(1+r.Intn(60000)),
		[][]string{{fmt.Sprint(r.Intn(60000)), fmt.Sprint(r.Intn(60000))}}, nil)
	// (4) the compiled circuit as a .mpclc file, one round
	cf := c10CLIFixed
	cf.name = "fixed-circuit-file"
	cf.asCircuitFile = true
	c10CLIFamily(c, bin, dir, "gmw-circuit-file", cf, fmt.Sprint(1+r.Intn(100000)),
		[][]string{{fmt.Sprint(r.Intn(100000))}}, nil)
	return nil
}
