package main

// C19, wire cases — ONE real party (p2p.Create or p2p.Join, then Connect) among
// peers that the harness plays over raw TCP.  Recorded byte-exactly: what the real
// party writes first on its Join link and on every connection it dials (and to
// whom, for which connection id), and the network info a real leader sends to
// every peer.  The harness writes the peers' hellos / the leader's network info
// itself; those bytes are part of the case input, the model (Proto/MeshWire.v)
// decodes them.  Negative cases: the FIRST inbound hello has a wrong magic, a
// connection id >= numConns, a peer id >= numParties or a changed address; or the
// scripted leader announces another number of connections.

import (
	"encoding/binary"
	"fmt"
	"io"
	"net"
	"sort"
	"sync"
	"time"

	"github.com/markkurossi/mpc/p2p"
)

type c19WireCfg struct {
	N, K, Self int
	Bad        string
}

type c19WireDial struct {
	C, Target int
	Bytes     []byte
}

func c19be32(v uint32) []byte {
	var b [4]byte
	binary.BigEndian.PutUint32(b[:], v)
	return b[:]
}

func c19Hello(magic uint32, id int, addr string) []byte {
	out := append([]byte{}, c19be32(magic)...)
	out = append(out, c19be32(uint32(id))...)
	out = append(out, c19be32(uint32(len(addr)))...)
	return append(out, addr...)
}

// reads magic, id, string from a raw connection; returns the bytes read
func c19ReadHello(conn net.Conn) ([]byte, error) {
	conn.SetReadDeadline(time.Now().Add(5 * time.Second))
	hdr := make([]byte, 12)
	if _, err := io.ReadFull(conn, hdr); err != nil {
		return nil, err
	}
	l := binary.BigEndian.Uint32(hdr[8:])
	if l > 4096 {
		return hdr, fmt.Errorf("address length %d", l)
	}
	rest := make([]byte, l)
	if _, err := io.ReadFull(conn, rest); err != nil {
		return hdr, err
	}
	return append(hdr, rest...), nil
}

// reads a network info from a raw connection; returns the bytes read
func c19ReadNetinfo(conn net.Conn) ([]byte, error) {
	conn.SetReadDeadline(time.Now().Add(5 * time.Second))
	out := make([]byte, 8)
	if _, err := io.ReadFull(conn, out); err != nil {
		return nil, err
	}
	cnt := binary.BigEndian.Uint32(out[4:])
	if cnt > 1024 {
		return out, fmt.Errorf("count %d", cnt)
	}
	for i := uint32(0); i < cnt; i++ {
		h := make([]byte, 8)
		if _, err := io.ReadFull(conn, h); err != nil {
			return out, err
		}
		out = append(out, h...)
		l := binary.BigEndian.Uint32(h[4:])
		if l > 4096 {
			return out, fmt.Errorf("address length %d", l)
		}
		a := make([]byte, l)
		if _, err := io.ReadFull(conn, a); err != nil {
			return out, err
		}
		out = append(out, a...)
	}
	return out, nil
}

func c19WireNetinfo(k int, ids []int, addrs []string) []byte {
	out := append([]byte{}, c19be32(uint32(k))...)
	out = append(out, c19be32(uint32(len(ids)))...)
	for _, i := range ids {
		out = append(out, c19be32(uint32(i))...)
		out = append(out, c19be32(uint32(len(addrs[i])))...)
		out = append(out, addrs[i]...)
	}
	return out
}

const c19ConnMagic = 0x474d5700

// the bad first inbound hello (from: a party that may legitimately dial in)
func c19WireBad(cfg c19WireCfg, rng *RNG, from int, addrs []string) []byte {
	c := 0
	switch cfg.Bad {
	case "magic":
		m := uint32(rng.U64())
		if m&0xffffff00 == c19ConnMagic {
			m ^= 0x00010000
		}
		if rng.Bool() {
			m = (c19ConnMagic ^ (uint32(1) << uint(8+rng.Intn(24)))) | uint32(c)
		}
		return c19Hello(m, from, addrs[from])
	case "connid":
		return c19Hello(c19ConnMagic|uint32(rng.Range(cfg.K, 255)), from, addrs[from])
	case "peerid":
		return c19Hello(c19ConnMagic, cfg.N+rng.Intn(3), addrs[from])
	case "addr":
		return c19Hello(c19ConnMagic, from, addrs[from]+"0")
	}
	return nil
}

func c19WireRun(c *Ctx, cfg c19WireCfg, rng *RNG) error {
	n, k, self := cfg.N, cfg.K, cfg.Self
	selfAddrs, err := c19FreePorts(1)
	if err != nil {
		return err
	}
	addrs := make([]string, n)
	addrs[self] = selfAddrs[0]
	ls := make([]net.Listener, n)
	var conns []net.Conn
	var mu sync.Mutex
	keep := func(cn net.Conn) { mu.Lock(); conns = append(conns, cn); mu.Unlock() }
	defer func() {
		for _, l := range ls {
			if l != nil {
				l.Close()
			}
		}
		mu.Lock()
		for _, cn := range conns {
			cn.Close()
		}
		mu.Unlock()
	}()
	for i := 0; i < n; i++ {
		if i == self {
			continue
		}
		l, err := net.Listen("tcp", "127.0.0.1:0")
		if err != nil {
			return err
		}
		ls[i] = l
		addrs[i] = l.Addr().String()
	}

	var netinfo []byte
	var hello0 []byte
	var dials []c19WireDial
	var lastEvent time.Time
	var problems []string
	touch := func() { lastEvent = time.Now() }
	if self != 0 {
		var ids []int
		for _, i := range c19Perm(rng, n, 2) { // a random order of 1..n-1
			if i != 0 && i != self {
				ids = append(ids, i)
			}
		}
		nk := k
		if cfg.Bad == "numconns" {
			nk = k + 1 + rng.Intn(3)
		}
		netinfo = c19WireNetinfo(nk, ids, addrs)
	}
	// the scripted peers' listeners: record what the real party writes first
	for i := 0; i < n; i++ {
		if i == self {
			continue
		}
		go func(i int) {
			first := true
			for {
				cn, err := ls[i].Accept()
				if err != nil {
					return
				}
				keep(cn)
				joinLink := i == 0 && first
				first = false
				go func() {
					b, err := c19ReadHello(cn)
					mu.Lock()
					defer mu.Unlock()
					touch()
					if err != nil {
						problems = append(problems, fmt.Sprintf("reading the hello on a connection to party %d: %v (got % x)", i, err, b))
						return
					}
					if joinLink {
						hello0 = b
						cn.Write(netinfo)
						return
					}
					dials = append(dials, c19WireDial{C: int(b[3]), Target: i, Bytes: b})
				}()
			}
		}(i)
	}

	var nw *p2p.Network
	if self == 0 {
		nw, err = p2p.Create(addrs[0], n, k)
	} else {
		nw, err = p2p.Join(addrs[0], addrs[self], self, k)
	}
	if err != nil {
		return fmt.Errorf("wire %+v: %v", cfg, err)
	}
	defer c19Close(nw)
	done := make(chan error, 1)
	go func() { done <- nw.Connect() }()

	// the scripted inbound connections, opened one after the other
	var ins [][]byte
	infos := map[int][]byte{}
	var infoWG sync.WaitGroup
	dialIn := func(b []byte, from int, wantInfo bool) error {
		cn, err := net.Dial("tcp", addrs[self])
		if err != nil {
			return err
		}
		keep(cn)
		if _, err := cn.Write(b); err != nil {
			return err
		}
		ins = append(ins, b)
		if wantInfo {
			infoWG.Add(1)
			go func() {
				defer infoWG.Done()
				got, err := c19ReadNetinfo(cn)
				mu.Lock()
				defer mu.Unlock()
				if err != nil {
					problems = append(problems, fmt.Sprintf("party %d reading the network info: %v (got % x)", from, err, got))
					return
				}
				infos[from] = got
			}()
		}
		return nil
	}
	var froms []int
	for _, j := range c19Perm(rng, n, 2) {
		if j != 0 && (self == 0 || j < self) {
			froms = append(froms, j)
		}
	}
	if cfg.Bad != "" && cfg.Bad != "numconns" {
		if err := dialIn(c19WireBad(cfg, rng, froms[0], addrs), froms[0], false); err != nil {
			return err
		}
	} else if cfg.Bad == "" {
		for cc := 0; cc < k; cc++ {
			for _, j := range froms {
				if err := dialIn(c19Hello(c19ConnMagic|uint32(cc), j, addrs[j]), j, self == 0 && cc == 0); err != nil {
					return err
				}
			}
		}
	}

	status := 2
	select {
	case e := <-done:
		if e == nil {
			status = 0
		} else {
			status = 1
		}
	case <-time.After(6 * time.Second):
	}
	infoWG.Wait()
	time.Sleep(100 * time.Millisecond)
	// every dial precedes Connect's return: wait until the recorders are quiet
	for {
		mu.Lock()
		quiet := time.Since(lastEvent) > 120*time.Millisecond
		mu.Unlock()
		if quiet {
			break
		}
		time.Sleep(20 * time.Millisecond)
	}
	mu.Lock()
	defer mu.Unlock()
	sort.Slice(dials, func(a, b int) bool {
		if dials[a].C != dials[b].C {
			return dials[a].C < dials[b].C
		}
		return dials[a].Target < dials[b].Target
	})

	key := fmt.Sprintf("wire/%d/%d/%d/%s", n, k, self, cfg.Bad)
	c.Eval(key, true)
	c.Hist("mode=wire")
	role := "joiner"
	if self == 0 {
		role = "leader"
	}
	c.Hist("wire:" + role + ":" + map[bool]string{true: "valid", false: "bad-" + cfg.Bad}[cfg.Bad == ""])

	// the property on the implementation, independent of the model
	fail := func(sym, what string) {
		c.Fail(fmt.Sprintf("c19:wire:%s:%s:%s", role, map[bool]string{true: "valid", false: cfg.Bad}[cfg.Bad == ""], sym),
			fmt.Sprintf("one real party (id %d of %d, %d connections) among scripted raw-TCP peers: %s", self, n, k, what),
			map[string]interface{}{"cfg": cfg, "status": status, "problems": problems})
	}
	if cfg.Bad != "" {
		if status != 1 {
			fail("not-rejected", fmt.Sprintf("bad input (%s) was not rejected: Connect status %d (0 nil, 2 never returned)", cfg.Bad, status))
		}
	} else {
		if status != 0 {
			fail("connect-failed", fmt.Sprintf("well-formed peers, Connect status %d; %v", status, problems))
		} else {
			t, _ := c19Snapshot(nw, k)
			if s := t.complete(self, n, k); s != "" {
				fail("table-"+s, "Connect returned nil with an incomplete table")
			}
		}
		if len(problems) > 0 {
			fail("short-write", fmt.Sprintf("%v", problems))
		}
		if self != 0 {
			if string(hello0) != string(c19Hello(c19ConnMagic, self, addrs[self])) {
				fail("join-hello", fmt.Sprintf("first bytes on the Join link: % x", hello0))
			}
			// exactly one side dials: the harness dialled in from 1..self-1, the party must dial the rest
			want := map[[2]int]bool{}
			for cc := 0; cc < k; cc++ {
				for j := 0; j < n; j++ {
					if j > self || (j == 0 && cc > 0) {
						want[[2]int{cc, j}] = true
					}
				}
			}
			for _, d := range dials {
				kk := [2]int{d.C, d.Target}
				if !want[kk] {
					fail("dial-role", fmt.Sprintf("unexpected or repeated dial of party %d for connection %d", d.Target, d.C))
				}
				delete(want, kk)
				if string(d.Bytes) != string(c19Hello(c19ConnMagic|uint32(d.C), self, addrs[self])) {
					fail("dial-hello", fmt.Sprintf("hello to party %d: % x", d.Target, d.Bytes))
				}
			}
			if len(want) > 0 {
				fail("dial-role", fmt.Sprintf("never dialled (connection, party): %v", want))
			}
		} else {
			for j := 1; j < n; j++ {
				var ids []int
				for i := 1; i < n; i++ {
					if i != j {
						ids = append(ids, i)
					}
				}
				if string(infos[j]) != string(c19WireNetinfo(k, ids, addrs)) {
					fail("netinfo", fmt.Sprintf("network info received by party %d: % x", j, infos[j]))
				}
			}
		}
	}

	var insSX, dialsSX, infosSX []SX
	for _, b := range ins {
		insSX = append(insSX, Bytes(b))
	}
	for _, d := range dials {
		dialsSX = append(dialsSX, L(I(d.C), I(d.Target), Bytes(d.Bytes)))
	}
	for j := 1; j < n; j++ {
		if b, ok := infos[j]; ok {
			infosSX = append(infosSX, L(I(j), Bytes(b)))
		}
	}
	input := L(I(0), I(n), I(k), I(self), Bytes([]byte(addrs[self])), Bytes(netinfo), L(insSX...))
	obs := L(I(status), Bytes(hello0), L(dialsSX...), L(infosSX...))
	if status == 2 {
		return nil // reported above; the schedule of a hung run is not the model's
	}
	c.Case(input, obs)
	return nil
}

func c19Wire(c *Ctx) error {
	var cfgs []c19WireCfg
	for _, s := range [][3]int{{2, 1, 1}, {3, 2, 1}, {3, 1, 2}, {4, 2, 2}, {5, 3, 3}, {6, 4, 5}, {4, 1, 3}, {6, 2, 2},
		{2, 1, 0}, {2, 3, 0}, {3, 2, 0}, {5, 1, 0}, {6, 4, 0}, {4, 3, 0}} {
		cfgs = append(cfgs, c19WireCfg{N: s[0], K: s[1], Self: s[2]})
	}
	for x, bad := range []string{"magic", "connid", "peerid", "addr", "numconns", "magic", "connid", "numconns"} {
		cfgs = append(cfgs, c19WireCfg{N: 3 + x%4, K: 1 + x%3, Self: 2 + x%2*(x%4)/2, Bad: bad})
	}
	for x, bad := range []string{"magic", "connid", "peerid", "magic", "connid"} {
		cfgs = append(cfgs, c19WireCfg{N: 2 + x%4, K: 1 + x%4, Self: 0, Bad: bad})
	}
	extra := c.N(0, 40)
	for x := 0; x < extra; x++ {
		n := c.rng.Range(2, 7)
		cfgs = append(cfgs, c19WireCfg{N: n, K: c.rng.Range(1, 5), Self: c.rng.Intn(n)})
	}
	for _, cfg := range cfgs {
		if cfg.Self >= cfg.N {
			cfg.Self = cfg.N - 1
		}
		if cfg.Bad != "" && cfg.Bad != "numconns" && cfg.Self == 1 {
			cfg.Self = 2 // the bad hello must arrive while need[0] > 0
			if cfg.N < 3 {
				cfg.N = 3
			}
		}
		if err := c19WireRun(c, cfg, c.rng.Fork()); err != nil {
			return err
		}
	}
	return nil
}
