package main

// c16doors.go — the less-travelled ways into the functionality C16 is about (see the table
// "Doors" in notes/C16-findings.md): stream edits (insertion, deletion, two messages changing
// places), replay of an earlier session's message, every OT implementation, long-lived OT
// objects and the same *Circuit / env.Config over sessions that follow aborted ones, read
// fragmentation, verbose mode, compiled circuits, Params options of the streaming garbler and
// the command-line front end apps/garbled behind a corrupting TCP relay.

import (
	"bufio"
	"encoding/json"
	"fmt"
	"io"
	"math/big"
	"sync"
	"sync/atomic"
	"time"

	"github.com/markkurossi/mpc/circuit"
	"github.com/markkurossi/mpc/env"
	"github.com/markkurossi/mpc/ot"
	"github.com/markkurossi/mpc/p2p"
)

// c16Editor edits the byte stream one endpoint WRITES: deletion of [a,b), insertion of ins
// before offset a, or the ranges [a,b) and [b,c) changing places (the bytes from a on are held
// back until offset c has been written).  Offsets count the bytes of the honest stream.
type c16Editor struct {
	rw      io.ReadWriter
	mu      sync.Mutex
	off     int
	kind    string
	a, b, c int
	ins     []byte
	held    []byte
}

func (e *c16Editor) Read(p []byte) (int, error) { return e.rw.Read(p) }

func (e *c16Editor) Write(p []byte) (int, error) {
	e.mu.Lock()
	defer e.mu.Unlock()
	out := make([]byte, 0, len(p)+len(e.ins))
	for _, x := range p {
		o := e.off
		e.off++
		switch e.kind {
		case "delete":
			if o >= e.a && o < e.b {
				continue
			}
		case "insert":
			if o == e.a {
				out = append(out, e.ins...)
			}
		case "swap":
			if o >= e.a && o < e.c {
				e.held = append(e.held, x)
				if o == e.c-1 {
					out = append(out, e.held[e.b-e.a:]...)
					out = append(out, e.held[:e.b-e.a]...)
					e.held = nil
				}
				continue
			}
		}
		out = append(out, x)
	}
	if len(out) > 0 {
		if _, err := e.rw.Write(out); err != nil {
			return 0, err
		}
	}
	return len(p), nil
}

func (e *c16Editor) Close() error {
	if c, ok := e.rw.(io.Closer); ok {
		return c.Close()
	}
	return nil
}

// wrap puts the stream editor of an edit fault in front of the endpoint that writes the
// fault's direction (ga writes g2e, ea writes e2g); other faults: the endpoints unchanged.
func (f *fault) wrap(ga, ea io.ReadWriter) (io.ReadWriter, io.ReadWriter) {
	if f == nil {
		return ga, ea
	}
	var ed *c16Editor
	switch f.kind {
	case "delete":
		ed = &c16Editor{kind: "delete", a: f.off, b: f.off + f.count}
	case "insert":
		ed = &c16Editor{kind: "insert", a: f.off, ins: f.ins}
	case "swap":
		ed = &c16Editor{kind: "swap", a: f.off, b: f.off2, c: f.off3}
	default:
		return ga, ea
	}
	if f.dir == "e2g" {
		ed.rw = ea
		return ga, ed
	}
	ed.rw = ga
	return ed, ea
}

// c16Reseed: the randomness of a LONG-LIVED OT object, re-seeded before every session so that
// the sessions of one fault list still share their transcript up to the fault.
type c16Reseed struct{ r *RNG }

func (s *c16Reseed) Read(p []byte) (int, error) { return s.r.Read(p) }

type c16SessOpts struct {
	circ     *circuit.Circuit
	gIn, eIn *big.Int
	cfg      *env.Config
	otG, otE ot.OT
	frag     int
	rng      *RNG
	f        *fault
	timeout  time.Duration
	verbose  bool
}

// c16Session: runSession (c02.go) with the stream editor, a caller-owned env.Config and the
// verbose flag.
func c16Session(o c16SessOpts) *sessionResult {
	ga, ea, g2e, e2g := newDuplexPair(o.rng, o.frag)
	if o.f != nil {
		o.f.apply(g2e, e2g)
	}
	gw, ew := o.f.wrap(ga, ea)
	gConn := p2p.NewConn(gw)
	eConn := p2p.NewConn(ew)
	res := &sessionResult{}
	var gDone, eDone atomic.Bool
	var wg sync.WaitGroup
	wg.Add(2)
	go func() {
		defer wg.Done()
		defer func() {
			if r := recover(); r != nil {
				res.gErr = fmt.Errorf("panic: %v", r)
				gDone.Store(true)
			}
		}()
		res.gRes, res.gErr = circuit.Garbler(o.cfg, gConn, o.otG, o.circ, o.gIn, o.verbose)
		gDone.Store(true)
	}()
	go func() {
		defer wg.Done()
		defer func() {
			if r := recover(); r != nil {
				res.eErr = fmt.Errorf("panic: %v", r)
				eDone.Store(true)
			}
		}()
		res.eRes, res.eErr = circuit.Evaluator(eConn, o.otE, o.circ, o.eIn, o.verbose)
		eDone.Store(true)
	}()
	done := make(chan struct{})
	go func() { wg.Wait(); close(done) }()
	deadline := time.Now().Add(o.timeout)
	idle := 0
loop:
	for {
		select {
		case <-done:
			break loop
		case <-time.After(2 * time.Millisecond):
		}
		if (gDone.Load() || e2g.idle()) && (eDone.Load() || g2e.idle()) {
			idle++
		} else {
			idle = 0
		}
		if idle >= 30 || time.Now().After(deadline) {
			res.stalled = true
			ga.Close()
			ea.Close()
			<-done
			break loop
		}
	}
	ga.Close()
	ea.Close()
	go gConn.Close()
	go eConn.Close()
	g2e.mu.Lock()
	res.g2e = append([]byte(nil), g2e.log...)
	res.g2eDelivered = append([]byte(nil), g2e.delivered...)
	g2e.mu.Unlock()
	e2g.mu.Lock()
	res.e2g = append([]byte(nil), e2g.log...)
	res.e2gDelivered = append([]byte(nil), e2g.delivered...)
	e2g.mu.Unlock()
	return res
}

func c16Range(src []byte, a, b int) map[int]byte {
	m := map[int]byte{}
	for k := a; k < b && k < len(src); k++ {
		m[k] = src[k]
	}
	return m
}

// c16EditFaults: stream edits and replays for a whole-circuit session whose honest transcript
// is (g2e, e2g); earlier is the transcript of an EARLIER session of the same parties on the same
// circuit and inputs (other key, labels, OT randomness).  inOff: offset of the garbler's input
// labels in g2e; tail: offset of the returned output labels in e2g; nswap: places per chunk size and
// direction where two adjacent chunks of the OT traffic change places.
func c16EditFaults(circ *circuit.Circuit, g2e, e2g []byte, earlier *sessionResult, inOff, tail, nswap int) []fault {
	lg, le := len(g2e), len(e2g)
	n0 := int(circ.Inputs[0].Type.Bits)
	no := circ.Outputs.Size()
	otOff := inOff + 16*n0
	var fs []fault
	add := func(f fault) {
		f.must = true
		fs = append(fs, f)
	}
	// gate records of g2e: offsets and sizes
	type rec struct{ off, size int }
	var recs []rec
	off := 40
	for _, g := range circ.Gates {
		sz := 4
		switch g.Op {
		case circuit.AND:
			sz += 32
		case circuit.OR:
			sz += 48
		case circuit.INV:
			sz += 16
		}
		recs = append(recs, rec{off, sz})
		off += sz
	}
	// --- deletion / insertion: at every message boundary and inside the messages
	gPts := []int{0, 3, 4, 20, 36, 39, 40, 44, inOff - 1, inOff, inOff + 16, otOff - 1, otOff, otOff + 4, (otOff + lg) / 2, lg - 5, lg - 1}
	for _, p := range gPts {
		if p < 0 || p >= lg {
			continue
		}
		add(fault{dir: "g2e", off: p, kind: "delete", count: 1})
		add(fault{dir: "g2e", off: p, kind: "insert", ins: []byte{0}})
	}
	add(fault{dir: "g2e", off: 36, kind: "delete", count: 4})                   // the gate count
	add(fault{dir: "g2e", off: inOff, kind: "delete", count: 16})               // the first input label
	add(fault{dir: "g2e", off: inOff, kind: "insert", ins: g2e[inOff : inOff+16]}) // ... sent twice
	add(fault{dir: "g2e", off: 44, kind: "delete", count: 16})                  // a table row
	if len(recs) > 1 {
		add(fault{dir: "g2e", off: recs[1].off, kind: "delete", count: recs[1].size}) // a whole gate record
		add(fault{dir: "g2e", off: recs[1].off, kind: "insert", ins: g2e[recs[0].off : recs[0].off+recs[0].size]})
	}
	ePts := []int{0, 1, 4, tail / 2, tail - 9, tail - 8, tail - 4, tail - 1, tail, tail + 1, tail + 15, tail + 16, le - 16, le - 1}
	for _, p := range ePts {
		if p < 0 || p >= le {
			continue
		}
		add(fault{dir: "e2g", off: p, kind: "delete", count: 1})
		add(fault{dir: "e2g", off: p, kind: "insert", ins: []byte{0}})
	}
	for i := 0; i < no; i++ {
		// a returned label lost / delivered twice: every later label moves by one place
		add(fault{dir: "e2g", off: tail + 16*i, kind: "delete", count: 16})
		add(fault{dir: "e2g", off: tail + 16*i, kind: "insert", ins: e2g[tail+16*i : tail+16*i+16]})
	}
	// --- two messages changing places
	for i := 0; i+1 < n0; i++ {
		add(fault{dir: "g2e", off: inOff + 16*i, off2: inOff + 16*i + 16, off3: inOff + 16*i + 32, kind: "swap"})
	}
	for i := 0; i+1 < no; i++ {
		add(fault{dir: "e2g", off: tail + 16*i, off2: tail + 16*i + 16, off3: tail + 16*i + 32, kind: "swap"})
	}
	if no > 2 {
		add(fault{dir: "e2g", off: tail, off2: tail + 16, off3: tail + 16*no, kind: "swap"}) // rotation of all labels
	}
	for i := 0; i+1 < len(recs); i++ {
		add(fault{dir: "g2e", off: recs[i].off, off2: recs[i+1].off, off3: recs[i+1].off + recs[i+1].size, kind: "swap"})
	}
	for _, rc := range recs {
		if rc.size == 36 { // the two rows of an AND table
			add(fault{dir: "g2e", off: rc.off + 4, off2: rc.off + 20, off3: rc.off + 36, kind: "swap"})
			break
		}
	}
	add(fault{dir: "g2e", off: 4, off2: 20, off3: 36, kind: "swap"}) // halves of the key
	// the OT traffic: adjacent chunks of 4 .. 132 bytes changing places, along both streams
	for _, sz := range []int{4, 8, 16, 32, 33, 64, 132} {
		for k := 0; k < nswap; k++ {
			if span := lg - otOff - 2*sz; span > 0 {
				p := otOff + (k*span)/nswap
				fs = append(fs, fault{dir: "g2e", off: p, off2: p + sz, off3: p + 2*sz, kind: "swap"})
			}
			if span := tail - 2*sz; span > 0 {
				p := (k * span) / nswap
				fs = append(fs, fault{dir: "e2g", off: p, off2: p + sz, off3: p + 2*sz, kind: "swap"})
			}
		}
	}
	// --- replay of an earlier session's messages
	if earlier != nil && len(earlier.g2e) >= otOff && len(earlier.e2g) >= 16*no {
		eg, ee := earlier.g2e, earlier.e2g
		etail := len(ee) - 16*no
		add(fault{dir: "g2e", off: 4, kind: "replay", setv: c16Range(eg, 4, 36)})            // the key
		add(fault{dir: "g2e", off: 40, kind: "replay", setv: c16Range(eg, 40, inOff)})       // all tables
		add(fault{dir: "g2e", off: inOff, kind: "replay", setv: c16Range(eg, inOff, otOff)}) // the input labels
		add(fault{dir: "g2e", off: 0, kind: "replay", setv: c16Range(eg, 0, otOff)})         // the whole first flight
		add(fault{dir: "g2e", off: otOff, kind: "replay", setv: c16Range(eg, otOff, lg)})    // the OT traffic
		add(fault{dir: "g2e", off: 0, kind: "replay", setv: c16Range(eg, 0, lg)})            // everything
		if etail == tail {
			add(fault{dir: "e2g", off: 0, kind: "replay", setv: c16Range(ee, 0, tail)}) // the OT traffic
			add(fault{dir: "e2g", off: 0, kind: "replay", setv: c16Range(ee, 0, le)})   // everything
		}
		// the earlier session's returned labels, all and one by one (at their place in this stream)
		all := map[int]byte{}
		for i := 0; i < no; i++ {
			one := map[int]byte{}
			for k := 0; k < 16; k++ {
				one[tail+16*i+k] = ee[etail+16*i+k]
				all[tail+16*i+k] = ee[etail+16*i+k]
			}
			add(fault{dir: "e2g", off: tail + 16*i, kind: "replay", setv: one})
		}
		add(fault{dir: "e2g", off: tail, kind: "replay", setv: all})
	}
	return fs
}

// c16Emit writes one record of the child protocol.
func c16Emit(w *bufio.Writer, rec *c16Rec) {
	b, _ := json.Marshal(rec)
	fmt.Fprintf(w, "END %s\n", b)
	w.Flush()
}

// mk2: an OT object over an arbitrary entropy reader, for the implementations that can be
// initialised again and so may outlive a session (an ot.COT object serves one initialisation).
func (k otMaker) mk2(r io.Reader) ot.OT {
	switch k.name {
	case "rsa":
		return ot.NewRSA(r, 1024)
	default:
		return ot.NewCO(r)
	}
}
