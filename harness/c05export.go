package main

// Export of a compiled SSA program (ssa.Program after Program.GC, obtained
// through the exported Compiler.CompileSSA) into the step syntax of the Coq
// model (Lang/Gc.v, Proto/Stream.v), the per-step boolean circuits exactly as
// the streamer compiles them (the [default:] branch of Program.Stream,
// replayed here through the exported builders of compiler/circuits), and an
// implementation-side liveness analysis that says which gc instructions free a
// value while a (transitive) alias of it is still going to be read.

import (
	"fmt"
	"sort"
	"strings"

	"github.com/markkurossi/mpc/circuit"
	"github.com/markkurossi/mpc/compiler"
	"github.com/markkurossi/mpc/compiler/circuits"
	"github.com/markkurossi/mpc/compiler/ssa"
	"github.com/markkurossi/mpc/compiler/utils"
	"github.com/markkurossi/mpc/types"
)

type c05Keys struct {
	byKey map[string]int
	idOf  map[int]ssa.ValueID // non-const: key number -> Value.ID
	keyOf map[ssa.ValueID]int
	bad   string
}

func c05ValKey(v ssa.Value) string {
	ptr := ""
	if v.PtrInfo != nil {
		ptr = fmt.Sprintf("%s@%d+%d", v.PtrInfo.Name, v.PtrInfo.Scope, v.PtrInfo.Offset)
	}
	return fmt.Sprintf("%v|%s|%d|%d|%s", v.Const, v.Name, v.Scope, v.Version, ptr)
}

func (k *c05Keys) raw(key string) int {
	n, ok := k.byKey[key]
	if !ok {
		n = len(k.byKey)
		k.byKey[key] = n
	}
	return n
}

// num numbers the Value.Equal class of v and checks that, for non-constant
// values, the class is in bijection with Value.ID (Program.GC indexes its
// live set by ID, the wire allocator by Equal).
func (k *c05Keys) num(v ssa.Value) int {
	n := k.raw(c05ValKey(v))
	if !v.Const {
		if id, ok := k.idOf[n]; ok && id != v.ID {
			k.bad = fmt.Sprintf("value %s has IDs %d and %d", v, id, v.ID)
		}
		if m, ok := k.keyOf[v.ID]; ok && m != n {
			k.bad = fmt.Sprintf("ID %d names two values (%s)", v.ID, v)
		}
		k.idOf[n] = v.ID
		k.keyOf[v.ID] = n
	}
	return n
}

func (k *c05Keys) val(v ssa.Value) SX {
	var cint int64
	if v.Const {
		if c, err := v.ConstInt(); err == nil {
			cint = int64(c)
		}
	}
	return L(I(k.num(v)), Bool(v.Const), I(int(v.Type.Bits)), Bool(v.Type.Type == types.TInt), I64(cint))
}

// the generators of compiler/ssa/streamer.go (circuitGenerators), through the
// exported builders
func c05Build(cc *circuits.Compiler, instr ssa.Instr, in [][]*circuits.Wire, out []*circuits.Wire) (bool, error) {
	bin := func(f func(*circuits.Compiler, []*circuits.Wire, []*circuits.Wire, []*circuits.Wire) error) (bool, error) {
		return true, f(cc, in[0], in[1], out)
	}
	switch instr.Op {
	case ssa.Iadd, ssa.Uadd:
		return bin(circuits.NewAdder)
	case ssa.Isub, ssa.Usub:
		return bin(circuits.NewSubtractor)
	case ssa.Imult, ssa.Umult:
		return true, circuits.NewMultiplier(cc, cc.Params.CircMultArrayTreshold, in[0], in[1], out)
	case ssa.Idiv:
		return true, circuits.NewIDivider(cc, in[0], in[1], out, nil)
	case ssa.Udiv:
		return true, circuits.NewUDivider(cc, in[0], in[1], out, nil)
	case ssa.Imod:
		return true, circuits.NewIDivider(cc, in[0], in[1], nil, out)
	case ssa.Umod:
		return true, circuits.NewUDivider(cc, in[0], in[1], nil, out)
	case ssa.Index:
		offset, err := instr.In[1].ConstInt()
		if err != nil {
			return false, err
		}
		return true, circuits.NewIndex(cc, int(instr.In[0].Type.ElementType.Bits), in[0][offset:], in[2], out)
	case ssa.Ilt:
		return bin(circuits.NewIntLtComparator)
	case ssa.Ult:
		return bin(circuits.NewUintLtComparator)
	case ssa.Ile:
		return bin(circuits.NewIntLeComparator)
	case ssa.Ule:
		return bin(circuits.NewUintLeComparator)
	case ssa.Igt:
		return bin(circuits.NewIntGtComparator)
	case ssa.Ugt:
		return bin(circuits.NewUintGtComparator)
	case ssa.Ige:
		return bin(circuits.NewIntGeComparator)
	case ssa.Uge:
		return bin(circuits.NewUintGeComparator)
	case ssa.Eq:
		return bin(circuits.NewEqComparator)
	case ssa.Neq:
		return bin(circuits.NewNeqComparator)
	case ssa.And:
		return bin(circuits.NewLogicalAND)
	case ssa.Or:
		return bin(circuits.NewLogicalOR)
	case ssa.Not:
		for i := 0; i < len(out); i++ {
			cc.INV(in[0][i], out[i])
		}
		return true, nil
	case ssa.Band:
		return bin(circuits.NewBinaryAND)
	case ssa.Bclr:
		return bin(circuits.NewBinaryClear)
	case ssa.Bor:
		return bin(circuits.NewBinaryOR)
	case ssa.Bxor:
		return bin(circuits.NewBinaryXOR)
	case ssa.Builtin:
		return true, instr.Builtin(cc, in[0], in[1], out)
	case ssa.Phi:
		return true, circuits.NewMUX(cc, in[0], in[1], in[2], out)
	case ssa.Bts:
		index, err := instr.In[1].ConstInt()
		if err != nil {
			return false, err
		}
		return false, circuits.NewBitSetTest(cc, in[0], index, out)
	case ssa.Btc:
		index, err := instr.In[1].ConstInt()
		if err != nil {
			return false, err
		}
		return false, circuits.NewBitClrTest(cc, in[0], index, out)
	}
	return false, fmt.Errorf("no generator for %s", instr.Op)
}

func c05StepCircuit(params *utils.Params, calloc *circuits.Allocator, instr ssa.Instr) (*circuit.Circuit, bool, error) {
	var cIn [][]*circuits.Wire
	var flat []*circuits.Wire
	for _, in := range instr.In {
		w := calloc.Wires(in.Type.Bits)
		cIn = append(cIn, w)
		flat = append(flat, w...)
	}
	cOut := calloc.Wires(instr.Out.Type.Bits)
	for i := range cOut {
		cOut[i].SetOutput(true)
	}
	cc, err := circuits.NewCompiler(params, calloc, nil, nil, flat, cOut)
	if err != nil {
		return nil, false, err
	}
	cacheable, err := c05Build(cc, instr, cIn, cOut)
	if err != nil {
		return nil, false, err
	}
	cc.ConstPropagate()
	cc.Prune()
	circ := cc.Compile()
	circ.AssignLevels(params.Target)
	return circ, cacheable, nil
}

func c05IsAliasOp(op ssa.Operand) bool {
	switch op {
	case ssa.Concat, ssa.Lshift, ssa.Rshift, ssa.Srshift, ssa.Slice, ssa.Mov, ssa.Smov, ssa.Amov:
		return true
	}
	return false
}

type c05Premature struct {
	Step      int    `json:"step"`
	Freed     string `json:"freed"`
	LiveUse   string `json:"live_alias"`
	Depth     int    `json:"depth"`
	ViaConcat bool   `json:"via_concat"`
}

type c05Exported struct {
	input        SX // model input without the party inputs
	listing      SX
	premature    []c05Premature
	nSteps       int
	nGC          int
	nAlias       int
	nCirc        int
	gates        int
	ssaText      string
	constsTabled bool
	// constsRead: every constant operand in a value position is in
	// prog.Constants, or is an operand of a default-branch step whose circuit
	// has no gate reading the operand's input wires (consts_read_tabled of
	// the model, computed here from the real circuit)
	constsRead bool
	unreadConst []string
	hasNative    bool
	cacheHits    int
	untabled     []string
	outBits      []int
	n0, n1       int
}

// c05Export compiles src and exports it.
func c05Export(src string, sizes [][]int, opt c05StreamOpt) (ex *c05Exported, err error) {
	defer func() {
		if r := recover(); r != nil {
			err = fmt.Errorf("export panic: %v", r)
		}
	}()
	params := utils.NewParams()
	// the per-step circuits are compiled under the session's parameters
	if opt.multArray != 0 {
		params.CircMultArrayTreshold = opt.multArray
	}
	if opt.maxUnroll != 0 {
		params.MaxLoopUnroll = opt.maxUnroll
	}
	defer params.Close()
	source := "{data}"
	if opt.source != "" {
		source = opt.source
	}
	prog, _, err := compiler.New(params).CompileSSA(source, strings.NewReader(src), sizes)
	if err != nil {
		return nil, err
	}
	if len(prog.Inputs) != 2 {
		return nil, fmt.Errorf("not a two-party program")
	}
	var txt strings.Builder
	prog.PP(&txt)
	ex = &c05Exported{ssaText: txt.String()}
	keys := &c05Keys{byKey: map[string]int{}, idOf: map[int]ssa.ValueID{}, keyOf: map[ssa.ValueID]int{}}

	// arguments (NewProgram: Value{Name, Scope: 1, Type})
	var args []SX
	for idx, arg := range prog.Inputs {
		name := arg.Name
		if len(name) == 0 {
			name = fmt.Sprintf("arg{%d}", idx)
		}
		n := keys.raw(c05ValKey(ssa.Value{Name: name, Scope: 1}))
		args = append(args, L(I(n), I(int(arg.Type.Bits))))
	}
	ex.n0, ex.n1 = int(prog.Inputs[0].Type.Bits), int(prog.Inputs[1].Type.Bits)
	zeroKey := keys.raw(c05ValKey(ssa.Value{Const: true, Name: "{zero}"}))
	oneKey := keys.raw(c05ValKey(ssa.Value{Const: true, Name: "{one}"}))

	// constants in DefineConstants order
	var consts []ssa.Value
	for _, c := range prog.Constants {
		consts = append(consts, c.Const)
	}
	sort.Slice(consts, func(i, j int) bool { return strings.Compare(consts[i].Name, consts[j].Name) == -1 })
	tabled := map[int]bool{}
	var constSX []SX
	for _, c := range consts {
		tabled[keys.num(c)] = true
		bits := make([]bool, c.Type.Bits)
		for b := range bits {
			bits[b] = c.Bit(types.Size(b))
		}
		constSX = append(constSX, L(I(keys.num(c)), Bits(bits)))
	}

	calloc := circuits.NewAllocator()
	cache := map[string]int{}
	keyIDs := map[string]int{}
	circIdx := map[*circuit.Circuit]int{}
	var circs []SX
	var circObjs []*circuit.Circuit
	ex.constsRead = true
	// ni/no: number of input/output wires as the streamer uses the circuit
	// (len(in), len(out) of Streaming.Garble); circuits compiled for a step
	// carry no IO description of their own
	addCirc := func(c *circuit.Circuit, ni, no int, ins, outs []int) int {
		_, gs := CircuitSX(c)
		dims := L(I(c.NumWires), I(ni), I(no))
		circs = append(circs, L(dims, gs, Ints(ins), Ints(outs)))
		circObjs = append(circObjs, c)
		ex.gates += len(c.Gates)
		return len(circs) - 1
	}

	var steps, listing []SX
	type stepInfo struct {
		op   ssa.Operand
		ins  []int // non-const operand keys
		outs []int
		gc   int
		name map[int]string
	}
	var infos []stepInfo
	names := map[int]string{}
	orig := 0
	for _, st := range prog.Steps {
		instr := st.Instr
		info := stepInfo{op: instr.Op, gc: -1}
		if instr.Op == ssa.GC {
			n := keys.num(*instr.GC)
			names[n] = instr.GC.String()
			listing = append(listing, L(I(n)))
			info.gc = n
			infos = append(infos, info)
			ex.nGC++
			continue
		}
		var ins []SX
		type untabledOp struct{ pos, off, bits int }
		var pending []untabledOp
		inOff := 0
		for pos, in := range instr.In {
			// constant operands in value positions that are not in
			// prog.Constants (consts_tabled of the model)
			if in.Const && !tabled[keys.num(in)] {
				valuePos := true
				switch instr.Op {
				case ssa.Concat, ssa.Amov:
					valuePos = pos <= 1
				case ssa.Lshift, ssa.Rshift, ssa.Srshift, ssa.Slice, ssa.Mov, ssa.Smov:
					valuePos = pos == 0
				}
				if valuePos {
					ex.untabled = append(ex.untabled, fmt.Sprintf("%s:%d", instr.Op, pos))
					pending = append(pending, untabledOp{pos, inOff, int(in.Type.Bits)})
				}
			}
			inOff += int(in.Type.Bits)
			ins = append(ins, keys.val(in))
			if !in.Const {
				info.ins = append(info.ins, keys.num(in))
				names[keys.num(in)] = in.String()
			}
		}
		out := L()
		if instr.Out != nil {
			out = L(keys.val(*instr.Out))
			info.outs = append(info.outs, keys.num(*instr.Out))
			names[keys.num(*instr.Out)] = instr.Out.String()
		}
		var rets []SX
		for _, r := range instr.Ret {
			rets = append(rets, keys.val(r))
			info.outs = append(info.outs, keys.num(r))
		}
		ci := 0
		keyID, hit := 0, false
		switch {
		case c05IsAliasOp(instr.Op):
			ex.nAlias++
		case instr.Op == ssa.Ret:
		case instr.Op == ssa.Circ:
			idx, ok := circIdx[instr.Circ]
			if !ok {
				var is, os []int
				for _, a := range instr.Circ.Inputs {
					is = append(is, int(a.Type.Bits))
				}
				for _, a := range instr.Circ.Outputs {
					os = append(os, int(a.Type.Bits))
				}
				idx = addCirc(instr.Circ, instr.Circ.Inputs.Size(), instr.Circ.Outputs.Size(), is, os)
				ex.hasNative = true
				circIdx[instr.Circ] = idx
			}
			ci = idx
			ex.nCirc++
		default:
			// the cache key exactly as Program.Stream computes it
			key := instr.StringTyped()
			idx, ok := cache[key]
			hit = ok
			if id, seen := keyIDs[key]; seen {
				keyID = id
			} else {
				keyID = len(keyIDs) + 1
				keyIDs[key] = keyID
			}
			if !ok {
				c, cacheable, err := c05StepCircuit(params, calloc, instr)
				if err != nil {
					return nil, fmt.Errorf("step circuit %s: %v", instr, err)
				}
				ni := 0
				for _, in := range instr.In {
					ni += int(in.Type.Bits)
				}
				idx = addCirc(c, ni, int(instr.Out.Type.Bits), nil, nil)
				if cacheable {
					cache[key] = idx
				} else {
					keyID = 0 // bts/btc: compiled every time, never cached
				}
			}
			ci = idx
			ex.nCirc++
			// untabled constant operands of this builder step: does any
			// gate of the step's circuit read their input wires?
			for _, u := range pending {
				read := false
				for _, g := range circObjs[idx].Gates {
					a, b := int(g.Input0), int(g.Input1)
					if (a >= u.off && a < u.off+u.bits) || (g.Op != circuit.INV && b >= u.off && b < u.off+u.bits) {
						read = true
						break
					}
				}
				if read {
					ex.constsRead = false
				} else {
					ex.unreadConst = append(ex.unreadConst, fmt.Sprintf("%s:%d", instr.Op, u.pos))
				}
			}
			pending = nil
		}
		if len(pending) > 0 {
			// an untabled constant in a value position of ret / an alias
			// instruction / a native circuit
			ex.constsRead = false
		}
		steps = append(steps, L(I(int(instr.Op)), L(ins...), out, L(rets...), I(ci), I(keyID), Bool(hit)))
		if hit {
			ex.cacheHits++
		}
		listing = append(listing, I(orig))
		orig++
		infos = append(infos, info)
	}
	if keys.bad != "" {
		return nil, fmt.Errorf("value identity: %s", keys.bad)
	}
	ex.nSteps = orig
	ex.constsTabled = len(ex.untabled) == 0
	for _, o := range prog.Outputs {
		ex.outBits = append(ex.outBits, int(o.Type.Bits))
	}
	ex.input = L(L(args...), L(I(zeroKey), I(oneKey)), L(constSX...), L(circs...), Ints(ex.outBits), L(steps...))
	ex.listing = L(listing...)

	// liveness analysis on the real step list: alias edges as the streamer
	// rewires them (all eight alias operators)
	type edge struct {
		to     int
		concat bool
	}
	alias := map[int][]edge{}
	for _, inf := range infos {
		if c05IsAliasOp(inf.op) && len(inf.outs) == 1 {
			for _, in := range inf.ins {
				alias[in] = append(alias[in], edge{inf.outs[0], inf.op == ssa.Concat})
			}
		}
	}
	for p, inf := range infos {
		if inf.gc < 0 {
			continue
		}
		usedLater := map[int]bool{}
		for _, later := range infos[p+1:] {
			for _, in := range later.ins {
				usedLater[in] = true
			}
		}
		// breadth-first over alias descendants
		type node struct {
			v      int
			depth  int
			concat bool
		}
		seen := map[int]bool{inf.gc: true}
		queue := []node{{inf.gc, 0, false}}
		for len(queue) > 0 {
			n := queue[0]
			queue = queue[1:]
			if n.depth > 0 && usedLater[n.v] {
				ex.premature = append(ex.premature, c05Premature{Step: p, Freed: names[inf.gc], LiveUse: names[n.v],
					Depth: n.depth, ViaConcat: n.concat})
				break
			}
			for _, e := range alias[n.v] {
				if !seen[e.to] {
					seen[e.to] = true
					queue = append(queue, node{e.to, n.depth + 1, n.concat || e.concat})
				}
			}
		}
	}
	return ex, nil
}
