package main

// Property C13, the output side beyond the single mpc.Result:
//
//   - mpc.Results over MULTI-OUTPUT circuits (op 9): every output kind in one
//     list (bool, intN/uintN, *big.Int widths, stringN, arrays / slices of all of
//     these, zero-length arrays, an unflattened struct output, an array of
//     structs), nil outputs, an outputs list shorter / longer than the values,
//     the empty non-nil IO;
//   - the way every runner hands results out (op 10): outputs.Split(raw) followed
//     by mpc.Results, on raw values that carry garbage above the output wires or
//     are negative;
//   - the whole round trip text -> IOArg.Parse -> wires -> Split -> Results and
//     Go value -> IOArg.Set -> wires -> Split -> Results against the reference
//     value (oracle) — "decoding a result inverts the encoding" for whole
//     argument lists;
//   - IO.Size / IOArg.Len (op 11);
//   - mpc.PrintResults (op 12): the text printed per value for base 0, 2, 3, 8,
//     10, 16, 36, and (oracle) that the text printed with the default base reads
//     back through big.Int.SetString(s, 0) / IOArg.Parse as the same value.
//
// Every call is a correspondence case for the Coq model (IO/IOResults.v through
// IO/RunC13.v); the oracles use the reference codec of c13.go only.

import (
	"fmt"
	"math/big"
	"strings"

	mpc "github.com/markkurossi/mpc"
	"github.com/markkurossi/mpc/circuit"
	"github.com/markkurossi/mpc/types"
)

type c13ResReplay struct {
	Seed    uint64   `json:"seed"`
	Outputs string   `json:"outputs"`
	Raw     string   `json:"raw_value,omitempty"`
	Strings []string `json:"strings,omitempty"`
	Values  string   `json:"go_values,omitempty"`
	Index   int      `json:"output_index"`
	Got     string   `json:"got"`
	Want    string   `json:"want"`
	Detail  string   `json:"detail,omitempty"`
}

// one output of a generated multi-output circuit
type c13Out struct {
	shape *c13Shape
	val   *c13Val // value of a codec leaf (bool, int, uint, array/slice of those); nil otherwise
	want  *SX     // the expected projection of Result, nil when there is no reference (struct outputs)
	enc   *big.Int
	kind  string
	panic bool // Result panics for this output type (array of structs)
}

func c13KindName(s *c13Shape) string {
	switch s.kind {
	case c13Bool:
		return "bool"
	case c13Int:
		if s.bits > 64 {
			return "int-big"
		}
		return "int"
	case c13Uint:
		if s.bits > 64 {
			return "uint-big"
		}
		return "uint"
	case c13String:
		return "string"
	case c13Array:
		return "array-of-" + c13KindName(s.elem)
	case c13Slice:
		return "slice-of-" + c13KindName(s.elem)
	}
	return "struct"
}

func c13StringSX(b []byte) SX { return L(I(4), Bytes([]byte(c13RefString(b)))) }

// c13GenOut: one output type with a value and the value Result must return
func c13GenOut(r *RNG) *c13Out {
	o := &c13Out{}
	switch k := r.Intn(40); {
	case k < 25: // codec leaves
		o.shape = c13GenLeaf(r)
		o.val, _ = c13GenVal(r, o.shape)
		w := c13ExpectOut(o.shape, o.val)
		o.want = &w
		o.enc = c13FromBits(c13Encode(o.shape, o.val))
	case k < 31: // string
		n := r.Intn(7)
		o.shape = &c13Shape{kind: c13String, bits: 8 * n}
		b := []byte{}
		if n > 0 {
			b = c13StrClasses[r.Intn(len(c13StrClasses))].gen(r, n)
		}
		w := c13StringSX(b)
		o.want = &w
		o.enc = c13EncodeBytes(b)
	case k < 35: // array / slice of strings
		n := 1 + r.Intn(3)
		count := r.Intn(4)
		kind := c13Array
		if r.Bool() {
			kind = c13Slice
		}
		o.shape = &c13Shape{kind: kind, n: count, elem: &c13Shape{kind: c13String, bits: 8 * n}}
		var all []byte
		items := make([]SX, count)
		for i := 0; i < count; i++ {
			b := c13StrClasses[r.Intn(len(c13StrClasses))].gen(r, n)
			all = append(all, b...)
			items[i] = c13StringSX(b)
		}
		w := L(I(5), I(5), I(0), L(items...))
		o.want = &w
		o.enc = c13EncodeBytes(all)
	case k < 37: // zero-length array / slice
		el := []*c13Shape{{kind: c13Uint, bits: 8}, {kind: c13Int, bits: 16}, {kind: c13Uint, bits: 100}, {kind: c13Bool}, {kind: c13String, bits: 16}}[r.Intn(5)]
		kind := c13Array
		if r.Bool() {
			kind = c13Slice
		}
		o.shape = &c13Shape{kind: kind, n: 0, elem: el}
		if el.kind != c13String {
			o.val = &c13Val{}
			w := c13ExpectOut(o.shape, o.val)
			o.want = &w
		} else {
			w := L(I(5), I(5), I(0), L())
			o.want = &w
		}
		o.enc = new(big.Int)
	case k < 39: // an unflattened struct output: Result's default branch (a message)
		o.shape = &c13Shape{kind: c13Struct, fields: []*c13Shape{c13GenScalar(r), c13GenScalar(r)}}
		w := L(I(6))
		o.want = &w
		o.enc = c13RandBits(r, o.shape.Bits())
	default: // array of structs: reflect.SliceOf(nil) panics
		st := &c13Shape{kind: c13Struct, fields: []*c13Shape{{kind: c13Uint, bits: 8}, {kind: c13Bool}}}
		o.shape = &c13Shape{kind: c13Array, n: 1 + r.Intn(2), elem: st}
		o.enc = c13RandBits(r, o.shape.Bits())
		o.panic = true
	}
	o.kind = c13KindName(o.shape)
	return o
}

func c13OutsString(outs []*c13Out) string {
	var p []string
	for _, o := range outs {
		p = append(p, o.shape.String())
	}
	return strings.Join(p, ", ")
}

func c13CopyInts(v []*big.Int) []*big.Int {
	o := make([]*big.Int, len(v))
	for i, x := range v {
		o[i] = new(big.Int).Set(x)
	}
	return o
}

// c13RunResults: mpc.Results on fresh copies; the observable (Go value and the
// argument after the call, per value), the projected values and the code
func c13RunResults(vals []*big.Int, outputs circuit.IO) (obs SX, proj []SX, after []*big.Int, code int) {
	args := c13CopyInts(vals)
	var got []interface{}
	func() {
		defer func() {
			if e := recover(); e != nil {
				code = 2
			}
		}()
		got = mpc.Results(args, outputs)
	}()
	if code != 0 {
		return c13Err(code), nil, nil, code
	}
	items := make([]SX, len(got))
	proj = make([]SX, len(got))
	for i, v := range got {
		t := types.Info{Type: types.TUint, IsConcrete: true, Bits: 1024}
		if outputs != nil {
			t = outputs[i].Type
		}
		proj[i] = c13OutProj(v, t)
		items[i] = L(proj[i], Big(args[i]))
	}
	return L(I(1), L(items...)), proj, args, 0
}

func c13OutsSX(outputs circuit.IO) SX {
	if outputs == nil {
		return L()
	}
	return L(L(c13ArgsSX(outputs)...))
}

func c13BigsSX(v []*big.Int) SX {
	l := make([]SX, len(v))
	for i, x := range v {
		l[i] = Big(x)
	}
	return L(l...)
}

func (x *c13Run) resFail(key, what string, outs []*c13Out, raw *big.Int, idx int, got, want, detail string) {
	rep := c13ResReplay{Seed: x.c.Seed, Outputs: c13OutsString(outs), Index: idx, Got: got, Want: want, Detail: detail}
	if raw != nil {
		rep.Raw = "0x" + raw.Text(16)
	}
	x.c.Fail(key, what, rep)
}

// checkOutputs: the values Results returned against the reference, arguments untouched
func (x *c13Run) checkOutputs(family string, outs []*c13Out, raw *big.Int, parts []*big.Int, proj []SX, after []*big.Int, code int) {
	anyPanic := false
	for _, o := range outs {
		if o.panic {
			anyPanic = true
		}
	}
	if anyPanic {
		return // outside the property's type domain; correspondence only
	}
	if code != 0 || len(proj) != len(outs) {
		x.resFail("c13:Results:"+family+":panics-or-count", "mpc.Results panics or does not return one value per output", outs, raw, -1,
			fmt.Sprintf("code %d, %d values", code, len(proj)), fmt.Sprintf("%d values", len(outs)), "")
		return
	}
	for i, o := range outs {
		if o.want != nil && proj[i].String() != o.want.String() {
			x.resFail("c13:Results:"+family+":"+o.kind+":wrong-value", "the Go value of an output is not the value that was encoded", outs, raw, i,
				proj[i].String(), o.want.String(), "output "+o.shape.String()+" wire value 0x"+o.enc.Text(16))
		}
		if after[i].Cmp(parts[i]) != 0 {
			x.resFail("c13:Results:"+family+":mutates-argument", "mpc.Results modifies a *big.Int it is given", outs, raw, i,
				"0x"+after[i].Text(16), "0x"+parts[i].Text(16), "output "+o.shape.String())
		}
	}
}

// resultsCase: one multi-output circuit
func (x *c13Run) resultsCase(r *RNG) {
	c := x.c
	n := 1 + r.Intn(6)
	if r.Intn(12) == 0 {
		n = 0
	}
	outs := make([]*c13Out, n)
	var io circuit.IO
	var bits []bool
	total := 0
	for i := range outs {
		o := c13GenOut(r)
		if o.panic && r.Intn(3) != 0 { // keep most lists inside the decodable domain
			o = c13GenOut(r)
		}
		outs[i] = o
		io = append(io, circuit.IOArg{Name: fmt.Sprintf("o%d", i), Type: o.shape.Info()})
		bits = append(bits, c13Wires(o.enc, o.shape.Bits())...)
		total += o.shape.Bits()
		c.Hist("results-output:" + o.kind)
	}
	if io == nil {
		io = circuit.IO{}
	}
	c.Hist(fmt.Sprintf("results-outputs:%d", n))
	raw := c13FromBits(bits)
	rawClass := "exact"
	switch r.Intn(8) {
	case 0: // garbage above the output wires
		raw.Or(raw, new(big.Int).Lsh(c13RandBits(r, 1+r.Intn(40)), uint(total)))
		rawClass = "garbage-above"
	case 1: // a negative big.Int with the same low bits
		raw.Sub(raw, c13Pow2(total+r.Intn(9)))
		rawClass = "negative"
	}
	c.Hist("results-raw:" + rawClass)
	desc := c13OutsString(outs)
	c.Eval("results|"+desc+"|"+raw.Text(16), true)
	if x.i%97 == 0 {
		c.Sample(map[string]interface{}{"outputs": desc, "raw": "0x" + raw.Text(16)})
	}

	// op 10: the runners' pipeline Outputs.Split(raw) -> Results
	parts := io.Split(raw)
	obs, proj, after, code := c13RunResults(parts, io)
	c.Case(L(I(10), L(c13ArgsSX(io)...), Big(raw)), obs)
	x.checkOutputs("pipeline", outs, raw, parts, proj, after, code)
	for i, o := range outs {
		if i < len(parts) && (parts[i].Sign() < 0 || parts[i].Cmp(o.enc) != 0) {
			x.resFail("c13:Results:pipeline:Split", "IO.Split does not return the output's wire value", outs, raw, i, "0x"+parts[i].Text(16), "0x"+o.enc.Text(16), "")
		}
	}

	// Results is Result per output
	if code == 0 {
		for i := range outs {
			single, sc := c13Result(new(big.Int).Set(parts[i]), io[i].Type)
			if sc != 0 || c13OutProj(single, io[i].Type).String() != proj[i].String() {
				x.resFail("c13:Results:differs-from-Result", "mpc.Results is not mpc.Result per output", outs, raw, i, proj[i].String(), fmt.Sprint(single), "")
			}
		}
	}

	// op 9: the same values with nil outputs, a shorter / longer output list, arbitrary values
	switch r.Intn(5) {
	case 0:
		obs, proj, after, code := c13RunResults(parts, nil)
		c.Case(L(I(9), c13OutsSX(nil), c13BigsSX(parts)), obs)
		c.Hist("results-variant:nil-outputs")
		for i := range parts {
			want := L(I(3), Big(parts[i])).String()
			if code != 0 || proj[i].String() != want || after[i].Cmp(parts[i]) != 0 {
				x.resFail("c13:Results:nil-outputs", "mpc.Results with nil outputs does not return the raw values", outs, raw, i, fmt.Sprint(proj), want, "")
				break
			}
		}
	case 1:
		if n > 0 {
			short := io[:n-1]
			if len(short) == 0 && r.Bool() {
				short = circuit.IO{}
			}
			obs, _, _, _ := c13RunResults(parts, short)
			c.Case(L(I(9), c13OutsSX(short), c13BigsSX(parts)), obs)
			c.Hist("results-variant:short-outputs")
		}
	case 2:
		long := append(append(circuit.IO{}, io...), circuit.IOArg{Type: types.Bool})
		obs, proj, _, code := c13RunResults(parts, long)
		c.Case(L(I(9), c13OutsSX(long), c13BigsSX(parts)), obs)
		c.Hist("results-variant:long-outputs")
		if code == 0 && len(proj) != len(parts) {
			x.resFail("c13:Results:long-outputs:count", "mpc.Results does not return one value per result value", outs, raw, -1, fmt.Sprint(len(proj)), fmt.Sprint(len(parts)), "")
		}
	case 3:
		vals := make([]*big.Int, n)
		for i, o := range outs {
			vals[i] = c13RandBits(r, o.shape.Bits()+r.Intn(3)*r.Intn(70))
			if r.Intn(6) == 0 {
				vals[i].Neg(vals[i])
			}
		}
		obs, _, _, _ := c13RunResults(vals, io)
		c.Case(L(I(9), c13OutsSX(io), c13BigsSX(vals)), obs)
		c.Hist("results-variant:arbitrary-values")
	}

	// op 11: IO.Size / IOArg.Len, also with compound (struct) arguments in the list
	{
		sio := append(circuit.IO{}, io...)
		wantSize := total
		wantLens := make([]int, 0, len(sio)+1)
		for range io {
			wantLens = append(wantLens, 1)
		}
		if r.Bool() {
			st := c13GenStruct(r, 0)
			sio = append(sio, st.IOArg())
			wantSize += st.Bits()
			wantLens = append(wantLens, len(st.Leaves()))
		}
		lens := make([]int, len(sio))
		for i, a := range sio {
			lens[i] = a.Len()
		}
		size := sio.Size()
		c.Case(L(I(11), L(c13ArgsSX(sio)...)), L(I(size), Ints(lens)))
		if size != wantSize || fmt.Sprint(lens) != fmt.Sprint(wantLens) {
			x.resFail("c13:IO.Size-or-Len", "IO.Size is not the sum of the argument widths or IOArg.Len not the number of values", outs, nil, -1,
				fmt.Sprintf("%d %v", size, lens), fmt.Sprintf("%d %v", wantSize, wantLens), "")
		}
	}

	x.roundTrip(r, outs)
	if x.i%2 == 0 {
		x.printCase(r, outs, io, parts)
	}
}

// roundTripCase: output lists of codec leaves only (every list is spellable),
// the full round trips and the printed text
func (x *c13Run) roundTripCase(r *RNG) {
	n := 1 + r.Intn(5)
	outs := make([]*c13Out, n)
	var io circuit.IO
	var parts []*big.Int
	for i := range outs {
		o := &c13Out{shape: c13GenLeaf(r)}
		o.val, _ = c13GenVal(r, o.shape)
		w := c13ExpectOut(o.shape, o.val)
		o.want = &w
		o.enc = c13FromBits(c13Encode(o.shape, o.val))
		o.kind = c13KindName(o.shape)
		outs[i] = o
		io = append(io, circuit.IOArg{Name: fmt.Sprintf("o%d", i), Type: o.shape.Info()})
		parts = append(parts, new(big.Int).Set(o.enc))
		x.c.Hist("roundtrip-output:" + o.kind)
	}
	x.roundTrip(r, outs)
	x.printCase(r, outs, io, parts)
}

// roundTrip: the outputs of an identity circuit whose single (compound)
// argument has the outputs' types: text -> Parse -> Split -> Results and
// Go value -> Set -> Split -> Results give back the values
func (x *c13Run) roundTrip(r *RNG, outs []*c13Out) {
	c := x.c
	if len(outs) == 0 {
		return
	}
	var io circuit.IO
	st := &c13Shape{kind: c13Struct}
	strs := make([]string, len(outs))
	govals := make([]interface{}, len(outs))
	expressible := true
	for i, o := range outs {
		if o.val == nil || o.shape.kind == c13Struct {
			return
		}
		var sp string
		strs[i], sp = c13Spell(r, o.shape, o.val)
		if sp == "" {
			return
		}
		var ok bool
		govals[i], ok = c13GoValue(r, o.shape, o.val)
		if !ok {
			expressible = false
		}
		st.fields = append(st.fields, o.shape)
		io = append(io, circuit.IOArg{Name: fmt.Sprintf("o%d", i), Type: o.shape.Info()})
	}
	arg := st.IOArg()
	if len(outs) == 1 {
		arg = outs[0].shape.IOArg() // a single, non-compound argument: Parse may return a negative big.Int
	}
	total := st.Bits()
	run := func(family string, z *big.Int, code int) {
		if code != 0 {
			x.resFail("c13:roundtrip:"+family+":rejects-in-domain-value", "an in-domain value is rejected", outs, nil, -1, fmt.Sprintf("code %d", code), "accepted", strings.Join(strs, ","))
			return
		}
		parts := io.Split(z)
		obs, proj, after, rc := c13RunResults(parts, io)
		c.Case(L(I(10), L(c13ArgsSX(io)...), Big(z)), obs)
		c.Eval("roundtrip-"+family+"|"+c13OutsString(outs)+"|"+strings.Join(strs, ","), true)
		x.checkOutputs("roundtrip:"+family, outs, z, parts, proj, after, rc)
	}
	pz, pcode := c13Parse(arg, strs)
	c.Case(L(I(0), c13ArgSX(arg), c13StrsSX(strs)), c13ValueWires(pz, pcode, total))
	run("text", pz, pcode)
	c.Hist("roundtrip:text")
	if expressible {
		sz, scode := c13Set(arg, govals)
		c.Case(L(I(1), c13ArgSX(arg), c13GinsSX(govals)), c13ValueWires(sz, scode, total))
		run("go-value", sz, scode)
		c.Hist("roundtrip:go-value")
	}
}

// printCase: mpc.PrintResults on the values, every base
func (x *c13Run) printCase(r *RNG, outs []*c13Out, io circuit.IO, parts []*big.Int) {
	c := x.c
	for _, o := range outs {
		if o.panic || o.shape.kind == c13Struct {
			return // the message of the default branch / a panic: not printed text of a value
		}
	}
	base := []int{0, 0, 0, 2, 3, 8, 10, 16, 36}[r.Intn(9)]
	outputs := io
	if r.Intn(6) == 0 {
		outputs = nil
	}
	args := c13CopyInts(parts)
	panicked := false
	text := c13CaptureStdout(func() {
		defer func() {
			if e := recover(); e != nil {
				panicked = true
				panic(e)
			}
		}()
		mpc.PrintResults(args, outputs, base)
	})
	c.Hist(fmt.Sprintf("print-base:%d", base))
	c.Eval(fmt.Sprintf("print|%d|%s|%v", base, c13OutsString(outs), parts), true)
	in := L(I(12), c13OutsSX(outputs), c13BigsSX(parts), I(base))
	if panicked {
		c.Case(in, c13Err(2))
		x.resFail("c13:PrintResults:panics", "mpc.PrintResults panics on decodable outputs", outs, nil, -1, "panic", "text", fmt.Sprintf("base %d", base))
		return
	}
	var lines []string
	if len(parts) > 0 {
		lines = strings.Split(strings.TrimSuffix(text, "\n"), "\n")
	}
	if len(lines) != len(parts) {
		x.resFail("c13:PrintResults:line-count", "PrintResults does not print one line per result", outs, nil, -1, fmt.Sprintf("%d: %q", len(lines), text), fmt.Sprint(len(parts)), fmt.Sprintf("base %d", base))
		return
	}
	texts := make([]SX, len(lines))
	for i := range lines {
		prefix := fmt.Sprintf("Result[%d]: ", i)
		if !strings.HasPrefix(lines[i], prefix) {
			x.resFail("c13:PrintResults:line-prefix", "a line of PrintResults does not start with Result[i]: ", outs, nil, i, lines[i], prefix, "")
			return
		}
		lines[i] = strings.TrimPrefix(lines[i], prefix)
		texts[i] = c13StrSX(lines[i])
	}
	c.Case(in, L(I(1), L(texts...)))

	// the text printed with the default base reads back as the value
	if base != 0 || outputs == nil {
		return
	}
	for i, o := range outs {
		switch {
		case (o.shape.kind == c13Int || o.shape.kind == c13Uint) && o.val != nil:
			if o.val.z.Sign() < 0 && o.shape.bits > 64 {
				c.Hist("print:negative-big-int-base0") // printed "0x-…": documented observation, SetString rejects it
				continue
			}
			got, ok := new(big.Int).SetString(lines[i], 0)
			if !ok || got.Cmp(o.val.z) != 0 {
				x.resFail("c13:PrintResults:base0:"+o.kind+":reparse", "the text PrintResults prints with the default base does not read back as the value", outs, nil, i,
					lines[i], o.val.z.String(), "output "+o.shape.String())
			}
		case (o.shape.kind == c13Array || o.shape.kind == c13Slice) && o.shape.elem.kind == c13Uint && o.shape.elem.bits == 8 && o.shape.n > 0:
			// a []byte is printed as hex, first element first: as an array literal it is the same value
			z, code := c13Parse(circuit.IOArg{Type: o.shape.Info()}, []string{"0x" + lines[i]})
			if code != 0 || z.Cmp(o.enc) != 0 {
				x.resFail("c13:PrintResults:base0:bytes:reparse", "the hex text of a byte array output does not read back as the value", outs, nil, i,
					lines[i], "0x"+o.enc.Text(16), "output "+o.shape.String())
			}
		}
	}
}

// resultsFixed: small fixed lists (also the in-kernel sub-sample has these)
func (x *c13Run) resultsFixed() {
	c := x.c
	i13 := (&c13Shape{kind: c13Int, bits: 13}).Info()
	u70 := (&c13Shape{kind: c13Uint, bits: 70}).Info()
	s16 := (&c13Shape{kind: c13String, bits: 16}).Info()
	ab := (&c13Shape{kind: c13Array, n: 3, elem: &c13Shape{kind: c13Bool}}).Info()
	io := circuit.IO{{Name: "i", Type: i13}, {Name: "b", Type: types.Bool}, {Name: "s", Type: s16}, {Name: "a", Type: ab}, {Name: "u", Type: u70}}
	raw := new(big.Int)
	raw.SetString("1fff", 16)                             // int13 = -1
	raw.Or(raw, new(big.Int).Lsh(big.NewInt(1), 13))      // bool true
	raw.Or(raw, new(big.Int).Lsh(big.NewInt(0x0061), 14)) // "a\u0000"
	raw.Or(raw, new(big.Int).Lsh(big.NewInt(5), 30))      // [true false true]
	raw.Or(raw, new(big.Int).Lsh(c13Pow2(69), 33))        // 2^69
	parts := io.Split(raw)
	obs, proj, _, _ := c13RunResults(parts, io)
	c.Case(L(I(10), L(c13ArgsSX(io)...), Big(raw)), obs)
	c.Eval("results-fixed", true)
	want := []string{`(2 1 10 -1)`, `(1 1)`, `(4 (61 5c 75 30 30 30 30))`, `(5 1 0 ((1 1) (1 0) (1 1)))`, `(3 200000000000000000)`}
	for i := range want {
		if i >= len(proj) || proj[i].String() != want[i] {
			c.Fail("c13:Results:fixed-example:wrong-value", "mpc.Results of a fixed multi-output value",
				c13ResReplay{Outputs: io.String(), Raw: "0x" + raw.Text(16), Index: i, Got: fmt.Sprint(proj), Want: strings.Join(want, " ")})
			break
		}
	}
	for _, outputs := range []circuit.IO{nil, {}, io[:2]} {
		for _, vals := range [][]*big.Int{nil, {big.NewInt(5)}, {big.NewInt(-3), big.NewInt(1)}, parts} {
			obs, _, _, _ := c13RunResults(vals, outputs)
			c.Case(L(I(9), c13OutsSX(outputs), c13BigsSX(vals)), obs)
		}
	}
}

// c13ReportStringBackslash: the candidate finding below (notes/C13-findings.md, "F-new: Result does not
// escape the backslash") is reported as an oracle failure only once known_findings.json has an entry
// for its key; until then it is counted in the histogram and in a note (and stated in Coq as
// C13_result_string_lossless_refuted / _partial).
const c13ReportStringBackslash = true

// stringLossless: distinct contents of a stringN output must decode to distinct Go strings
func (x *c13Run) stringLossless(r *RNG) {
	c := x.c
	decode := func(b []byte) (string, bool) {
		l := &c13Shape{kind: c13String, bits: 8 * len(b)}
		enc := c13EncodeBytes(b)
		x.checkResult(l, nil, enc) // correspondence, twice on one *big.Int
		o, code := c13Result(new(big.Int).Set(enc), l.Info())
		s, ok := o.(string)
		return s, ok && code == 0
	}
	// contents without the byte 0x5c: the rendering is uniquely decodable (C13_result_string_lossless_partial)
	for i := 0; i < c.N(120, 2000); i++ {
		n := 1 + r.Intn(8)
		a := c13StrClasses[r.Intn(len(c13StrClasses)-1)].gen(r, n) // every class but "backslash"
		b := append([]byte(nil), a...)
		switch r.Intn(3) { // a near miss: one byte changed, two bytes swapped, or an independent content
		case 0:
			b[r.Intn(n)] ^= byte(1 + r.Intn(255))
		case 1:
			i, j := r.Intn(n), r.Intn(n)
			b[i], b[j] = b[j], b[i]
		default:
			b = c13StrClasses[r.Intn(len(c13StrClasses)-1)].gen(r, n)
		}
		for k := range a {
			if a[k] == 0x5c {
				a[k] = 0x2f
			}
			if b[k] == 0x5c {
				b[k] = 0x2f
			}
		}
		if string(a) == string(b) {
			continue
		}
		sa, oka := decode(a)
		sb, okb := decode(b)
		c.Eval(fmt.Sprintf("string-lossless|%x|%x", a, b), true)
		if !oka || !okb || sa == sb {
			c.Fail("c13:Result:string:distinct-values-same-text", "two different contents (no backslash) of a string output decode to the same Go string",
				c13StrReplay{Type: fmt.Sprintf("string%d", 8*n), Bytes: fmt.Sprintf("%x vs %x", a, b), Got: fmt.Sprintf("%q", sa), Want: "different from " + fmt.Sprintf("%q", sb)})
		}
	}
	// with the byte 0x5c the rendering is ambiguous: the backslash itself is not escaped
	a := []byte{'\\', 'u', '0', '0', '0', '0', 0}
	b := []byte{0, '\\', 'u', '0', '0', '0', '0'}
	sa, _ := decode(a)
	sb, _ := decode(b)
	c.Eval("string-lossless|backslash-pair", true)
	if sa == sb {
		c.Hist("observation:Result:string:backslash-not-escaped")
		c.Note("candidate finding: mpc.Result(string56) returns %q for the bytes %x and for %x (the backslash is not escaped)", sa, a, b)
		if c13ReportStringBackslash {
			c.Fail("c13:Result:string:backslash-not-escaped", "two different contents of a string output decode to the same Go string: the backslash itself is not escaped",
				c13StrReplay{Type: "string56", Bytes: fmt.Sprintf("%x vs %x", a, b), Got: fmt.Sprintf("%q", sa), Want: "two different strings"})
		}
	}
}
