package main

// c16doors2.go — the door children of C16 (see c16doors.go and the table "Doors" in
// notes/C16-findings.md).  Child d (C16_CIRC = ncirc+3+d):
//   0  whole-circuit sessions, OT = COT with the malicious-security checks, verbose mode
//   1  whole-circuit sessions, OT = RSA, long-lived OT objects
//   2  whole-circuit sessions on a COMPILED circuit (several outputs), long-lived CO objects,
//      reads fragmented to at most 3 bytes; the process runs under GOGC=1 / GOMAXPROCS=2
//   3  streaming sessions: stream edits and replays, every OT implementation, OptPruneGates,
//      verbose, one long-lived Compiler / Params / OT pair over sessions that follow aborted ones
//   4  the command-line front end apps/garbled (evaluator loop, whole-circuit and -stream) behind
//      a corrupting TCP relay
// All of them: oracle "a result without error equals the plain evaluation"; children 0-2 also
// emit correspondence cases (same model input as the standing children).

import (
	"bufio"
	"context"
	"fmt"
	"math/big"
	"net"
	"os"
	"os/exec"
	"path/filepath"
	"strings"
	"sync"
	"sync/atomic"
	"syscall"
	"time"

	"github.com/markkurossi/mpc/circuit"
	"github.com/markkurossi/mpc/compiler"
	"github.com/markkurossi/mpc/compiler/utils"
	"github.com/markkurossi/mpc/env"
	"github.com/markkurossi/mpc/ot"
	"github.com/markkurossi/mpc/p2p"
)

const c16NumDoorChildren = 7 // 5 doors + the second halves of the two longest standing children

// c16DoorEnv: extra environment of door child d's process.
func c16DoorEnv(d int) []string {
	if d == 2 {
		return []string{"GOGC=1", "GOMAXPROCS=2"}
	}
	return nil
}

func c16DoorChild(c *Ctx, w *bufio.Writer, startAt int, d int) error {
	ncirc := c.N(3, 10)
	for k := 0; k < ncirc+1+d; k++ {
		c.rng.Fork()
	}
	r := c.rng.Fork()
	var err error
	switch d {
	case 0:
		err = c16CircuitChild(c, w, r, startAt, c16Spec{kind: otKinds[2], per: c.N(24, 400), editsOnly: true, verbose: true})
	case 1:
		err = c16CircuitChild(c, w, r, startAt, c16Spec{kind: otKinds[3], per: c.N(10, 200), editsOnly: true, longLived: true})
	case 2:
		params := utils.NewParams()
		circ, _, cerr := compiler.New(params).Compile(c02Programs[1], nil)
		params.Close()
		if cerr != nil {
			return cerr
		}
		err = c16CircuitChild(c, w, r, startAt, c16Spec{kind: otKinds[0], per: c.N(40, 600), editsOnly: true, longLived: true, frag: 3, circ: circ})
	case 3:
		err = c16StreamDoors(c, w, r, startAt)
	case 4:
		err = c16CLIDoors(c, w, r, startAt)
	}
	if err != nil {
		return err
	}
	fmt.Fprintln(w, "DONE")
	return nil
}

// ---------------------------------------------------------------- streaming

// c16StreamLL: objects that live over several streaming sessions.
type c16StreamLL struct {
	params   *utils.Params
	comp     *compiler.Compiler
	cfgRand  *c16Reseed
	rsG, rsE *c16Reseed
	otG, otE ot.OT
}

type c16StreamOpt struct {
	ot      string // "" = co
	prune   bool
	verbose bool
	frag    int
	ll      *c16StreamLL
}

func c16MkOT(name string, r *RNG) ot.OT {
	for _, k := range otKinds {
		if k.name == name {
			return k.mk(r)
		}
	}
	return ot.NewCO(r)
}

// c16LastE2G: the evaluator->garbler byte stream (as written) of the last c16RunStreamOpt call.
var c16LastE2G []byte

func c16RunStreamOpt(seed uint64, src string, gIn, eIn []string, f *fault, opt *c16StreamOpt) (gRes []*big.Int, gErr error, stalled bool, lg, le int) {
	if opt == nil {
		opt = &c16StreamOpt{}
	}
	sr := NewRNG(seed)
	ga, ea, g2e, e2g := newDuplexPair(sr, opt.frag)
	if f != nil {
		f.apply(g2e, e2g)
	}
	gw, ew := f.wrap(ga, ea)
	gConn := p2p.NewConn(gw)
	eConn := p2p.NewConn(ew)
	var params *utils.Params
	var comp *compiler.Compiler
	var otG, otE ot.OT
	if opt.ll != nil {
		params, comp, otG, otE = opt.ll.params, opt.ll.comp, opt.ll.otG, opt.ll.otE
		opt.ll.cfgRand.r = sr.Fork()
		opt.ll.rsG.r, opt.ll.rsE.r = sr.Fork(), sr.Fork()
	} else {
		params = utils.NewParams()
		defer params.Close()
		params.Config = &env.Config{Rand: sr.Fork()}
		params.OptPruneGates = opt.prune
		params.Verbose = opt.verbose
		comp = compiler.New(params)
		otG, otE = c16MkOT(opt.ot, sr.Fork()), c16MkOT(opt.ot, sr.Fork())
	}
	type out struct {
		vals []*big.Int
		err  error
	}
	gch := make(chan out, 1)
	ech := make(chan out, 1)
	var gDone, eDone atomic.Bool
	go func() {
		defer func() {
			if p := recover(); p != nil {
				gDone.Store(true)
				gch <- out{nil, fmt.Errorf("panic: %v", p)}
			}
		}()
		_, vals, err := comp.Stream(gConn, otG, "c16", strings.NewReader(src), gIn, nil)
		gDone.Store(true)
		gch <- out{vals, err}
	}()
	go func() {
		defer func() {
			if p := recover(); p != nil {
				eDone.Store(true)
				ech <- out{nil, fmt.Errorf("panic: %v", p)}
			}
		}()
		_, vals, err := circuit.StreamEvaluator(eConn, otE, eIn, nil, opt.verbose)
		eDone.Store(true)
		ech <- out{vals, err}
	}()
	var gout *out
	deadline := time.Now().Add(10 * time.Second)
	idle := 0
	for gout == nil {
		select {
		case o := <-gch:
			gout = &o
		case <-time.After(2 * time.Millisecond):
		}
		if gout != nil {
			break
		}
		if (gDone.Load() || e2g.idle()) && (eDone.Load() || g2e.idle()) {
			idle++
		} else {
			idle = 0
		}
		if idle >= 30 || time.Now().After(deadline) {
			stalled = true
			break
		}
	}
	ga.Close()
	ea.Close()
	go gConn.Close()
	go eConn.Close()
	if gout == nil {
		select {
		case o := <-gch:
			gout = &o
		case <-time.After(2 * time.Second):
			return nil, fmt.Errorf("garbler did not return after abort"), true, 0, 0
		}
	}
	if opt.ll != nil || opt.verbose {
		// long-lived objects: the evaluator goroutine must be gone before the next session
		// (verbose: before the next line of the child protocol is written to stdout)
		select {
		case <-ech:
		case <-time.After(2 * time.Second):
		}
	}
	g2e.mu.Lock()
	lg = len(g2e.log)
	c16LastG2E = append(c16LastG2E[:0], g2e.log...)
	if dumpHdr {
		n := lg
		if n > 200 {
			n = 200
		}
		fmt.Fprintf(os.Stderr, "%q\n", g2e.log[:n])
	}
	g2e.mu.Unlock()
	e2g.mu.Lock()
	le = len(e2g.log)
	c16LastE2G = append(c16LastE2G[:0], e2g.log...)
	e2g.mu.Unlock()
	return gout.vals, gout.err, stalled, lg, le
}

func c16StreamDoors(c *Ctx, w *bufio.Writer, r *RNG, startAt int) error {
	av, bv := r.Intn(256), r.Intn(256)
	seed := r.U64()
	s := (av + bv) & 0xff
	want := []*big.Int{big.NewInt(int64(s ^ (av & bv))), big.NewInt(0)}
	if s < av {
		want[1] = big.NewInt(1)
	}
	src := c16StreamProgram
	gIn, eIn := []string{fmt.Sprint(av)}, []string{fmt.Sprint(bv)}
	wantS := bigsString(want)
	const no = 9
	fi := 0
	// one session: oracle + record
	session := func(label string, f *fault, opt *c16StreamOpt) (outcome string) {
		fi++
		if fi < startAt {
			return "skipped"
		}
		dir, off, kind := "clean", 0, "none"
		if f != nil {
			dir, off, kind = f.dir, f.off, f.kind
		}
		fmt.Fprintf(w, "BEGIN %d stream-doors:%s:%s:%d:%s\n", fi, label, dir, off, kind)
		w.Flush()
		rec := c16Rec{Fi: fi, Dir: "stream-" + label + "-" + dir, Kind: kind, Off: off, Circuit: "streaming: " + src}
		gres, gerr, st, _, _ := c16RunStreamOpt(seed, src, gIn, eIn, f, opt)
		switch {
		case gerr == nil && gres != nil && !st:
			rec.Outcome = "result"
			if bigsString(gres) != wantS {
				rec.Wrong = &c16Replay{Seed: c.Seed, Circuit: "streaming (" + label + "): " + src, OT: label, X: gIn[0], Y: eIn[0],
					Dir: dir, Offset: off, Kind: kind, Got: bigsString(gres), Want: wantS}
			}
		case st && gerr == nil:
			rec.Outcome = "stalled"
		default:
			rec.Outcome = "error"
		}
		c16Emit(w, &rec)
		return rec.Outcome
	}
	// honest transcript lengths (CO)
	res, err, st, lg, le := c16RunStreamOpt(seed, src, gIn, eIn, nil, nil)
	if err != nil || st || bigsString(res) != wantS {
		fmt.Fprintf(w, "BASEFAIL stream-doors baseline: %v %v %s want %s\n", err, st, bigsString(res), wantS)
		return nil
	}
	baseG := append([]byte(nil), c16LastG2E...)
	baseE := append([]byte(nil), c16LastE2G...)
	tail := le - 16*no
	// an earlier session (other randomness) for the replays
	c16RunStreamOpt(seed^0x2545f491, src, gIn, eIn, nil, nil)
	earlyG := append([]byte(nil), c16LastG2E...)
	earlyE := append([]byte(nil), c16LastE2G...)
	var fs []fault
	// deletion / insertion of one byte along both streams, dense at the end of g2e (the last
	// gate records and the return message) and around the returned labels
	stepG := lg/c.N(14, 300) + 1
	for off := 0; off < lg; off += stepG {
		fs = append(fs, fault{dir: "g2e", off: off, kind: "delete", count: 1}, fault{dir: "g2e", off: off, kind: "insert", ins: []byte{0}})
	}
	for off := lg - 40; off < lg; off += c.N(6, 1) {
		fs = append(fs, fault{dir: "g2e", off: off, kind: "delete", count: 1}, fault{dir: "g2e", off: off, kind: "insert", ins: []byte{0}})
	}
	for _, p := range []int{0, tail / 2, tail - 4, tail - 1, tail, tail + 16, le - 1} {
		if p >= 0 && p < le {
			fs = append(fs, fault{dir: "e2g", off: p, kind: "delete", count: 1}, fault{dir: "e2g", off: p, kind: "insert", ins: []byte{0}})
		}
	}
	// whole 4-byte words lost / doubled / changing places at the end of g2e (wire numbers of the
	// last gates and of the return message)
	for off := lg - 4*c.N(14, 120); off+8 <= lg; off += 4 {
		if off < 0 {
			continue
		}
		fs = append(fs, fault{dir: "g2e", off: off, off2: off + 4, off3: off + 8, kind: "swap"})
		if (off/4)%3 == 0 || c.Thorough() {
			fs = append(fs, fault{dir: "g2e", off: off, kind: "delete", count: 4}, fault{dir: "g2e", off: off, kind: "insert", ins: baseG[off : off+4]})
		}
	}
	// returned labels: lost, doubled, neighbours changing places, an earlier session's labels
	for i := 0; i < no; i++ {
		o := tail + 16*i
		if i%2 == 0 || c.Thorough() {
			fs = append(fs, fault{dir: "e2g", off: o, kind: "delete", count: 16}, fault{dir: "e2g", off: o, kind: "insert", ins: baseE[o : o+16]})
		}
		if i+1 < no {
			fs = append(fs, fault{dir: "e2g", off: o, off2: o + 16, off3: o + 32, kind: "swap"})
		}
		if len(earlyE) == le {
			fs = append(fs, fault{dir: "e2g", off: o, kind: "replay", setv: c16Range(earlyE, o, o+16)})
		}
	}
	if len(earlyE) == le {
		fs = append(fs, fault{dir: "e2g", off: tail, kind: "replay", setv: c16Range(earlyE, tail, le)},
			fault{dir: "e2g", off: 0, kind: "replay", setv: c16Range(earlyE, 0, tail)},
			fault{dir: "e2g", off: 0, kind: "replay", setv: c16Range(earlyE, 0, le)})
	}
	if len(earlyG) == lg {
		fs = append(fs, fault{dir: "g2e", off: 4, kind: "replay", setv: c16Range(earlyG, 4, 36)},
			fault{dir: "g2e", off: lg - 200, kind: "replay", setv: c16Range(earlyG, lg-200, lg)},
			fault{dir: "g2e", off: 0, kind: "replay", setv: c16Range(earlyG, 0, lg)})
	}
	for k := range fs {
		session("co", &fs[k], nil)
	}
	// every OT implementation and the Params options: a clean session, then flips over both
	// streams and the directed faults on the returned labels
	variants := []struct {
		label string
		opt   c16StreamOpt
		n     int
	}{
		{"cot", c16StreamOpt{ot: "cot"}, c.N(10, 200)},
		{"cot-malicious", c16StreamOpt{ot: "cot-malicious"}, c.N(10, 200)},
		{"rsa", c16StreamOpt{ot: "rsa"}, c.N(3, 40)},
		{"co-prune-verbose-frag7", c16StreamOpt{prune: true, verbose: true, frag: 7}, c.N(12, 300)},
	}
	for _, v := range variants {
		opt := v.opt
		vres, verr, vst, vlg, vle := c16RunStreamOpt(seed, src, gIn, eIn, nil, &opt)
		if verr != nil || vst || bigsString(vres) != wantS {
			fmt.Fprintf(w, "BASEFAIL stream-doors %s baseline: %v %v %s want %s\n", v.label, verr, vst, bigsString(vres), wantS)
			return nil
		}
		vtail := vle - 16*no
		var vf []fault
		for k := 0; k < v.n; k++ {
			off := (k*vlg)/v.n + k%3
			if off < vlg {
				vf = append(vf, fault{dir: "g2e", off: off, kind: "flip", mask: 1 << uint(k%8)})
			}
			off = (k * vtail) / v.n
			if off < vtail {
				vf = append(vf, fault{dir: "e2g", off: off, kind: "flip", mask: 1 << uint(k%8)})
			}
		}
		for i := 0; i < no; i += 2 {
			o := vtail + 16*i
			vf = append(vf, fault{dir: "e2g", off: o + i, kind: "flip", mask: 0x80},
				fault{dir: "e2g", off: o, kind: "set16", mask: 0},
				fault{dir: "e2g", off: o, off2: o + 16, off3: o + 32, kind: "swap"})
		}
		for off := vlg - 48; off+8 <= vlg; off += 4 {
			vf = append(vf, fault{dir: "g2e", off: off, off2: off + 4, off3: off + 8, kind: "swap"},
				fault{dir: "g2e", off: off + 3, kind: "flip", mask: 0x01})
		}
		if v.label == "rsa" {
			vf = vf[:len(vf)/3]
		}
		for k := range vf {
			session(v.label, &vf[k], &opt)
		}
	}
	// long-lived objects: ONE Params, Compiler, env.Config and CO pair over all sessions; after
	// every aborted session a clean one, which must give the right result (or an error)
	params := utils.NewParams()
	defer params.Close()
	ll := &c16StreamLL{params: params, cfgRand: &c16Reseed{}, rsG: &c16Reseed{}, rsE: &c16Reseed{}}
	params.Config = &env.Config{Rand: ll.cfgRand}
	params.OptPruneGates = true
	ll.comp = compiler.New(params)
	ll.otG, ll.otE = ot.NewCO(ll.rsG), ot.NewCO(ll.rsE)
	llOpt := &c16StreamOpt{ll: ll}
	if session("long-lived", nil, llOpt) == "result" {
		nll := c.N(12, 200)
		for k := 0; k < nll; k++ {
			var f fault
			switch k % 4 {
			case 0:
				f = fault{dir: "g2e", off: (k * lg) / nll, kind: "flip", mask: 0x10}
			case 1:
				f = fault{dir: "e2g", off: (k * tail) / nll, kind: "flip", mask: 0x10}
			case 2:
				f = fault{dir: "g2e", off: (k * lg) / nll, kind: "trunc"}
			default:
				f = fault{dir: "e2g", off: (k * le) / nll, kind: "trunc"}
			}
			session("long-lived", &f, llOpt)
			session("long-lived-after-aborted", nil, llOpt)
		}
	}
	return nil
}

// ---------------------------------------------------------------- apps/garbled

// c16Relay: a TCP relay between the garbler process (dials the relay) and the evaluator process
// (the relay dials it) which applies ONE fault per connection.
type c16Relay struct {
	ln     net.Listener
	mu     sync.Mutex
	target string
	f      *fault
	g2e    []byte
	e2g    []byte
}

func (rl *c16Relay) serve() {
	for {
		gc, err := rl.ln.Accept()
		if err != nil {
			return
		}
		rl.mu.Lock()
		target, f := rl.target, rl.f
		rl.g2e, rl.e2g = nil, nil
		rl.mu.Unlock()
		ec, err := net.DialTimeout("tcp", target, 2*time.Second)
		if err != nil {
			gc.Close()
			continue
		}
		var once sync.Once
		closeBoth := func() { once.Do(func() { gc.Close(); ec.Close() }) }
		pump := func(dir string, src, dst net.Conn, log *[]byte) {
			defer closeBoth()
			buf := make([]byte, 4096)
			off := 0
			for {
				n, err := src.Read(buf)
				var out []byte
				for _, b := range buf[:n] {
					o := off
					off++
					if f != nil && f.dir == dir {
						switch f.kind {
						case "flip":
							if o == f.off {
								b ^= f.mask
							}
						case "delete":
							if o >= f.off && o < f.off+f.count {
								continue
							}
						case "insert":
							if o == f.off {
								out = append(out, f.ins...)
							}
						case "trunc":
							if o >= f.off {
								rl.mu.Lock()
								*log = append(*log, out...)
								rl.mu.Unlock()
								dst.Write(out)
								return
							}
						}
					}
					out = append(out, b)
				}
				rl.mu.Lock()
				*log = append(*log, buf[:n]...)
				rl.mu.Unlock()
				if len(out) > 0 {
					if _, werr := dst.Write(out); werr != nil {
						return
					}
				}
				if err != nil {
					return
				}
			}
		}
		go pump("g2e", gc, ec, &rl.g2e)
		go pump("e2g", ec, gc, &rl.e2g)
	}
}

// c16Evaluator: a running `garbled -e` process.
type c16Evaluator struct {
	cmd  *exec.Cmd
	addr string
	done chan struct{}
}

func c16StartEvaluator(ctx context.Context, bin string, args []string) (*c16Evaluator, error) {
	addr, err := freeLoopbackAddr()
	if err != nil {
		return nil, err
	}
	full := append([]string{"-e", "-port", addr}, args...)
	cmd := exec.CommandContext(ctx, bin, full...)
	cmd.SysProcAttr = &syscall.SysProcAttr{Setpgid: true}
	out, err := cmd.StdoutPipe()
	if err != nil {
		return nil, err
	}
	cmd.Stderr = nil
	if err := cmd.Start(); err != nil {
		return nil, err
	}
	ev := &c16Evaluator{cmd: cmd, addr: addr, done: make(chan struct{})}
	listening := make(chan struct{})
	go func() {
		defer close(ev.done)
		var once sync.Once
		s := bufio.NewScanner(out)
		for s.Scan() {
			once.Do(func() { close(listening) })
		}
		cmd.Wait()
	}()
	select {
	case <-listening:
		return ev, nil
	case <-ev.done:
		return nil, fmt.Errorf("garbled -e exited before listening")
	case <-time.After(20 * time.Second):
		ev.stop()
		return nil, fmt.Errorf("garbled -e did not start listening")
	}
}

func (ev *c16Evaluator) alive() bool {
	select {
	case <-ev.done:
		return false
	default:
		return true
	}
}

func (ev *c16Evaluator) stop() {
	if ev.cmd.Process != nil {
		syscall.Kill(-ev.cmd.Process.Pid, syscall.SIGKILL)
	}
	select {
	case <-ev.done:
	case <-time.After(3 * time.Second):
	}
}

func c16CLIDoors(c *Ctx, w *bufio.Writer, r *RNG, startAt int) error {
	if startAt > 0 {
		return nil // the child never dies inside a session (the parties are processes of their own)
	}
	bin, err := buildGarbledCLI(c)
	if err != nil {
		return err
	}
	dir := filepath.Join(c.OutDir, "c16cli")
	if err := os.MkdirAll(dir, 0o755); err != nil {
		return err
	}
	defer os.RemoveAll(dir)
	prog := filepath.Join(dir, "wsum.mpcl")
	if err := os.WriteFile(prog, []byte(c02CLIProgram), 0o644); err != nil {
		return err
	}
	// wall budget: on a loaded machine the remaining sessions are skipped (and counted as
	// "skipped") rather than turned into time-outs
	budget := time.Duration(c.N(55, 900)) * time.Second
	deadline := time.Now().Add(budget)
	ctx, cancel := context.WithTimeout(context.Background(), budget+40*time.Second)
	defer cancel()
	a, b, e := r.Bytes(2), r.Bytes(1), r.Bytes(2)
	a2 := r.Bytes(2)
	modes := []string{"circuit", "stream"}
	recs := make([][]c16Rec, len(modes))
	basefail := make([]string, len(modes))
	var wg sync.WaitGroup
	for mi, mode := range modes {
		wg.Add(1)
		go func(mi int, mode string) {
			defer wg.Done()
			recs[mi], basefail[mi] = c16CLIMode(c, ctx, deadline, bin, prog, mode, mi*100000, a, a2, b, e)
		}(mi, mode)
	}
	wg.Wait()
	for mi := range modes {
		for k := range recs[mi] {
			rec := &recs[mi][k]
			fmt.Fprintf(w, "BEGIN %d %s:%d:%s\n", rec.Fi, rec.Dir, rec.Off, rec.Kind)
			c16Emit(w, rec)
		}
		if basefail[mi] != "" {
			fmt.Fprintf(w, "BASEFAIL %s\n", basefail[mi])
			return nil
		}
	}
	return nil
}

func c16CLIMode(c *Ctx, ctx context.Context, deadline time.Time, bin, prog, mode string, fi int, a, a2, b, e []byte) (recs []c16Rec, basefail string) {
	ln, err := net.Listen("tcp", "127.0.0.1:0")
	if err != nil {
		return nil, "cli " + mode + ": " + err.Error()
	}
	defer ln.Close()
	rl := &c16Relay{ln: ln}
	go rl.serve()
	evArgs := []string{"-i", fmt.Sprintf("0x%x", e), prog}
	gArgs := []string{"-port", ln.Addr().String()}
	if mode == "stream" {
		evArgs = []string{"-stream", "-i", fmt.Sprintf("0x%x", e)}
		gArgs = append(gArgs, "-stream")
	}
	var ev *c16Evaluator
	defer func() {
		if ev != nil {
			ev.stop()
		}
	}()
	ensure := func() error {
		if ev != nil && ev.alive() {
			return nil
		}
		var err error
		ev, err = c16StartEvaluator(ctx, bin, evArgs)
		if err != nil {
			return err
		}
		rl.mu.Lock()
		rl.target = ev.addr
		rl.mu.Unlock()
		return nil
	}
	// one garbler process through the relay; outcome and transcript lengths
	session := func(label string, ga []byte, f *fault, timeout time.Duration) (string, int, int) {
		fi++
		dirn, off, kind := "clean", 0, "none"
		if f != nil {
			dirn, off, kind = f.dir, f.off, f.kind
		}
		rec := c16Rec{Fi: fi, Dir: "cli-" + mode + "-" + label + "-" + dirn, Kind: kind, Off: off, Circuit: "apps/garbled " + mode + ": " + c02CLIProgram}
		if time.Now().After(deadline) {
			rec.Outcome = "skipped-for-time"
			recs = append(recs, rec)
			return rec.Outcome, 0, 0
		}
		if err := ensure(); err != nil {
			if time.Now().After(deadline) || ctx.Err() != nil {
				rec.Outcome = "skipped-for-time"
				recs = append(recs, rec)
				return rec.Outcome, 0, 0
			}
			basefail = "cli " + mode + ": " + err.Error()
			return "basefail", 0, 0
		}
		rl.mu.Lock()
		rl.f = f
		rl.mu.Unlock()
		want := c02CLIPlain(ga, b, e)
		sctx, scancel := context.WithTimeout(ctx, timeout)
		args := append(append([]string(nil), gArgs...), "-i", fmt.Sprintf("0x%x,0x%x", ga, b), prog)
		g := exec.CommandContext(sctx, bin, args...)
		out, gerr := g.CombinedOutput()
		timedOut := sctx.Err() != nil
		scancel()
		got := cliResults(out)
		switch {
		case timedOut:
			rec.Outcome = "stalled"
		case gerr != nil:
			rec.Outcome = "error"
		case len(got) == 1:
			rec.Outcome = "result"
			if got[0] != want {
				rec.Wrong = &c16Replay{Seed: c.Seed, Circuit: "apps/garbled (" + mode + " mode, evaluator loop) " + c02CLIProgram, OT: "co",
					X: fmt.Sprintf("0x%x,0x%x", ga, b), Y: fmt.Sprintf("0x%x", e), Dir: dirn, Offset: off, Kind: label + ":" + kind,
					Got: fmt.Sprintf("%x", got[0]), Want: fmt.Sprintf("%x", want)}
			}
		default:
			rec.Outcome = "error" // exit 0 without a result line: no value was reported
		}
		recs = append(recs, rec)
		rl.mu.Lock()
		lg, le := len(rl.g2e), len(rl.e2g)
		rl.mu.Unlock()
		if timedOut && ev != nil {
			ev.stop() // the evaluator may be stuck in the aborted session
		}
		return rec.Outcome, lg, le
	}
	oc, lg, le := session("first", a, nil, 40*time.Second)
	switch oc {
	case "basefail", "skipped-for-time", "stalled":
		return // stalled: the machine is too slow right now (a clean session cannot stall otherwise: C02)
	case "result":
	default:
		basefail = "cli " + mode + ": clean session through the relay: " + oc
		return
	}
	var fs []fault
	// the input-size exchange that precedes the protocol (first bytes of both directions)
	for off := 0; off < 20; off += c.N(4, 1) {
		fs = append(fs, fault{dir: "e2g", off: off, kind: "flip", mask: 1 << uint(off%3)})
	}
	for off := 0; off < 28; off += c.N(5, 1) {
		fs = append(fs, fault{dir: "g2e", off: off, kind: "flip", mask: 1 << uint(off%3)})
	}
	// the end of both streams (returned labels / result; return message of the stream)
	for _, d := range []int{1, 17} {
		fs = append(fs, fault{dir: "e2g", off: le - d, kind: "flip", mask: 0x01}, fault{dir: "g2e", off: lg - d, kind: "flip", mask: 0x01})
	}
	fs = append(fs,
		fault{dir: "e2g", off: le - 16, kind: "delete", count: 16}, fault{dir: "e2g", off: le - 16, kind: "insert", ins: make([]byte, 16)},
		fault{dir: "e2g", off: le / 2, kind: "trunc"}, fault{dir: "g2e", off: lg / 3, kind: "trunc"}, fault{dir: "e2g", off: le - 20, kind: "trunc"},
		fault{dir: "g2e", off: lg / 2, kind: "delete", count: 1}, fault{dir: "g2e", off: lg / 2, kind: "insert", ins: []byte{0}},
		fault{dir: "e2g", off: 9, kind: "delete", count: 1})
	ng, ne := c.N(5, 200), c.N(3, 100)
	for k := 1; k <= ng; k++ {
		fs = append(fs, fault{dir: "g2e", off: (k*lg)/(ng+1) + k%4, kind: "flip", mask: 1 << uint(k%8)})
	}
	for k := 1; k <= ne; k++ {
		fs = append(fs, fault{dir: "e2g", off: (k * le) / (ne + 1), kind: "flip", mask: 1 << uint(k%8)})
	}
	for k := range fs {
		if fs[k].off < 0 {
			continue
		}
		oc, _, _ := session("fault", a, &fs[k], 8*time.Second)
		if oc == "basefail" {
			return
		}
		if oc != "result" && oc != "skipped-for-time" && k%3 == 0 {
			// a clean session with another garbler input right after the aborted one (the same
			// evaluator process — OT object, cached circuit — if it survived)
			label := "after-aborted:evaluator-restarted"
			time.Sleep(30 * time.Millisecond) // an evaluator that treats the abort as fatal is exiting now
			if ev != nil && ev.alive() {
				label = "after-aborted:same-evaluator"
			}
			if oc, _, _ := session(label, a2, nil, 20*time.Second); oc == "basefail" {
				return
			}
		}
	}
	return
}
