package main

// Property C13, end-to-end layer: the text form and the Go-value form of an
// input must put the same bits on the argument's wires *as the consumers read
// them*.  For a handful of tiny compiled programs the real circuit.Garbler and
// circuit.Evaluator are run over p2p.Pipe with the CO oblivious transfer, each
// party's input fed once as parsed text (IOArg.Parse; a negative decimal of a
// single int argument comes back as a NEGATIVE big.Int whose sign extension
// every consumer must read with Bit(i) for i < Type.Bits) and once through
// IOArg.Set of the Go value.  Oracle: every run gives the reference result,
// and bit for bit (v.Bit(i), i < Type.Bits) the parsed value equals the Set
// value for every spelling.

import (
	"fmt"
	"math/big"
	"strings"
	"time"

	mpc "github.com/markkurossi/mpc"
	"github.com/markkurossi/mpc/circuit"
	"github.com/markkurossi/mpc/compiler"
	"github.com/markkurossi/mpc/compiler/utils"
	"github.com/markkurossi/mpc/env"
	"github.com/markkurossi/mpc/ot"
	"github.com/markkurossi/mpc/p2p"
)

type c13Prog struct {
	name    string
	width   int
	add     bool // result g + e (else the evaluator's input)
	struct2 bool // each party has a two-member struct argument; result g.a + e.b
}

func (p c13Prog) source() string {
	t := fmt.Sprintf("int%d", p.width)
	if p.struct2 {
		return "package main\n\ntype Args struct {\n\ta " + t + "\n\tb " + t + "\n}\n\nfunc main(g, e Args) " + t + " {\n\treturn g.a + e.b\n}\n"
	}
	if p.add {
		return "package main\n\nfunc main(g, e " + t + ") " + t + " {\n\treturn g + e\n}\n"
	}
	return "package main\n\nfunc main(g, e " + t + ") " + t + " {\n\treturn e\n}\n"
}

type c13E2EReplay struct {
	Program string `json:"program"`
	Type    string `json:"argument_type"`
	Value   string `json:"value"`
	GText   string `json:"garbler_input_text,omitempty"`
	EText   string `json:"evaluator_input_text,omitempty"`
	GForm   string `json:"garbler_input_form"`
	EForm   string `json:"evaluator_input_form"`
	Got     string `json:"got"`
	Want    string `json:"want"`
	Detail  string `json:"detail,omitempty"`
}

// c13Session runs Garbler and Evaluator over p2p.Pipe with CO OT and returns
// the evaluator's raw results.
func c13Session(circ *circuit.Circuit, gIn, eIn *big.Int, r *RNG) (res []*big.Int, err error) {
	gConn, eConn := p2p.Pipe()
	gr, er := r.Fork(), r.Fork()
	gerr := make(chan error, 1)
	go func() {
		defer func() {
			if e := recover(); e != nil {
				gerr <- fmt.Errorf("garbler panic: %v", e)
				gConn.Close()
			}
		}()
		_, e := circuit.Garbler(&env.Config{Rand: gr}, gConn, ot.NewCO(gr), circ, new(big.Int).Set(gIn), false)
		if e != nil {
			gConn.Close()
		}
		gerr <- e
	}()
	type eres struct {
		r []*big.Int
		e error
	}
	ech := make(chan eres, 1)
	go func() {
		defer func() {
			if e := recover(); e != nil {
				ech <- eres{nil, fmt.Errorf("evaluator panic: %v", e)}
				eConn.Close()
			}
		}()
		rr, e := circuit.Evaluator(eConn, ot.NewCO(er), circ, new(big.Int).Set(eIn), false)
		if e != nil {
			eConn.Close()
		}
		ech <- eres{rr, e}
	}()
	select {
	case ev := <-ech:
		if ev.e != nil {
			return nil, fmt.Errorf("evaluator: %v", ev.e)
		}
		select {
		case ge := <-gerr:
			if ge != nil {
				return nil, fmt.Errorf("garbler: %v", ge)
			}
		case <-time.After(20 * time.Second):
			return nil, fmt.Errorf("garbler did not finish")
		}
		return ev.r, nil
	case <-time.After(20 * time.Second):
		gConn.Close()
		eConn.Close()
		return nil, fmt.Errorf("session timed out")
	}
}

func c13ResultBig(v interface{}) (*big.Int, bool) {
	switch x := v.(type) {
	case int8:
		return big.NewInt(int64(x)), true
	case int16:
		return big.NewInt(int64(x)), true
	case int32:
		return big.NewInt(int64(x)), true
	case int64:
		return big.NewInt(x), true
	case uint8:
		return new(big.Int).SetUint64(uint64(x)), true
	case uint16:
		return new(big.Int).SetUint64(uint64(x)), true
	case uint32:
		return new(big.Int).SetUint64(uint64(x)), true
	case uint64:
		return new(big.Int).SetUint64(x), true
	case *big.Int:
		return new(big.Int).Set(x), true
	}
	return nil, false
}

// wrap to the signed n-bit range
func c13WrapSigned(z *big.Int, n int) *big.Int {
	m := new(big.Int).Mod(z, c13Pow2(n))
	if m.Bit(n-1) == 1 {
		m.Sub(m, c13Pow2(n))
	}
	return m
}

func c13GoInt(width int, v *big.Int) interface{} {
	x := v.Int64()
	switch {
	case width <= 8:
		return int8(x)
	case width <= 16:
		return int16(x)
	case width <= 32:
		return int32(x)
	}
	return x
}

// spellings of v for an n-bit signed argument: decimal, sign+hex, sign+binary,
// and the n-bit two's complement pattern in hex / binary
func c13IntSpellings(v *big.Int, n int) map[string]string {
	abs := new(big.Int).Abs(v)
	sign := ""
	if v.Sign() < 0 {
		sign = "-"
	}
	tc := new(big.Int).Mod(v, c13Pow2(n))
	return map[string]string{
		"decimal":           v.String(),
		"hex":               sign + "0x" + abs.Text(16),
		"binary":            sign + "0b" + abs.Text(2),
		"hex-twos-compl":    "0x" + tc.Text(16),
		"binary-twos-compl": "0b" + tc.Text(2),
	}
}

func (x *c13Run) endToEnd(r *RNG) {
	c := x.c
	x.i = -3
	progs := []c13Prog{
		{name: "identity-int8", width: 8}, {name: "add-int8", width: 8, add: true},
		{name: "identity-int13", width: 13}, {name: "add-int13", width: 13, add: true},
		{name: "identity-int32", width: 32}, {name: "add-int32", width: 32, add: true},
		{name: "identity-int64", width: 64}, {name: "add-int64", width: 64, add: true},
		{name: "struct2-int13", width: 13, struct2: true},
	}
	sessions := 0
	for _, p := range progs {
		params := utils.NewParams()
		circ, _, err := compiler.New(params).Compile(p.source(), nil)
		params.Close()
		if err != nil || len(circ.Inputs) != 2 {
			c.Fail("c13:e2e:compile:"+p.name, "the end-to-end test program does not compile", c13E2EReplay{Program: p.source(), Got: fmt.Sprint(err)})
			continue
		}
		n := p.width
		typ := fmt.Sprintf("int%d", n)
		lo := new(big.Int).Neg(c13Pow2(n - 1))
		hi := new(big.Int).Sub(c13Pow2(n-1), big.NewInt(1))
		classes := []struct {
			v     *big.Int
			class string
		}{{big.NewInt(0), "zero"}, {big.NewInt(1), "one"}, {big.NewInt(-1), "minus-one"}, {lo, "min"}, {hi, "max"},
			{big.NewInt(-5), "minus-five"}, {big.NewInt(5), "five"}}
		for _, cl := range classes {
			v := cl.v
			other := big.NewInt(3) // the second struct member / nothing
			gv := c13GoInt(n, v)
			// inputs of both parties, per form
			var textIn, goIn []string
			var goVals []interface{}
			if p.struct2 {
				textIn = []string{v.String(), other.String()}
				goVals = []interface{}{gv, c13GoInt(n, other)}
			} else {
				textIn = []string{v.String()}
				goVals = []interface{}{gv}
			}
			_ = goIn
			var want *big.Int
			switch {
			case p.struct2:
				want = c13WrapSigned(new(big.Int).Add(v, other), n) // g.a + e.b = v + 3
			case p.add:
				want = c13WrapSigned(new(big.Int).Add(v, v), n)
			default:
				want = new(big.Int).Set(v)
			}
			// (a) the bits each consumer reads: Parse of every spelling vs Set, both parties
			role := []string{"garbler", "evaluator"}
			var parsed, set [2]*big.Int
			okForms := true
			for party := 0; party < 2; party++ {
				arg := circ.Inputs[party]
				bits := int(arg.Type.Bits)
				sv, scode := c13Set(arg, goVals)
				c.Case(L(I(1), c13ArgSX(arg), c13GinsSX(goVals)), c13ValueWires(sv, scode, bits))
				if scode != 0 {
					okForms = false
					c.Fail(fmt.Sprintf("c13:wires:text-vs-go-value:%s-input:%s:%s", role[party], typ, cl.class),
						"Set rejects the Go value", c13E2EReplay{Program: p.name, Type: arg.Type.String(), Value: v.String(), Got: "error"})
					continue
				}
				set[party] = sv
				spell := map[string]string{"decimal": v.String()}
				if !p.struct2 {
					spell = c13IntSpellings(v, n)
				}
				for sname, s := range spell {
					in := []string{s}
					if p.struct2 {
						in = []string{s, other.String()}
					}
					pv, pcode := c13Parse(arg, in)
					c.Case(L(I(0), c13ArgSX(arg), c13StrsSX(in)), c13ValueWires(pv, pcode, bits))
					c.Eval(fmt.Sprintf("e2e-bits|%s|%d|%s", p.name, party, s), true)
					if pcode != 0 {
						okForms = false
						c.Fail(fmt.Sprintf("c13:wires:text-vs-go-value:%s-input:%s:%s", role[party], typ, cl.class),
							"Parse rejects a spelling of the value", c13E2EReplay{Program: p.name, Type: arg.Type.String(), Value: v.String(), EText: s, Got: "error"})
						continue
					}
					if sname == "decimal" {
						parsed[party] = pv
					}
					if bitsString(c13Wires(pv, bits)) != bitsString(c13Wires(sv, bits)) {
						c.Fail(fmt.Sprintf("c13:wires:text-vs-go-value:%s-input:%s:%s", role[party], typ, cl.class),
							"bit for bit (Bit(i), i < Type.Bits) the parsed text differs from Set of the Go value",
							c13E2EReplay{Program: p.name, Type: arg.Type.String(), Value: v.String(), EText: s, GForm: "-", EForm: sname,
								Got: bitsString(c13Wires(pv, bits)), Want: bitsString(c13Wires(sv, bits))})
					}
				}
			}
			if !okForms || parsed[0] == nil || parsed[1] == nil {
				continue
			}
			c.Hist("e2e:" + p.name)
			c.Hist("e2e-class:" + cl.class)
			if parsed[1].Sign() < 0 {
				c.Hist("e2e:evaluator-input-is-a-negative-big.Int")
			}
			// (b) the real protocol: Go values both, text for the evaluator, text for the garbler
			runs := []struct {
				g, e         *big.Int
				gForm, eForm string
				who          string
			}{
				{set[0], set[1], "Set(go value)", "Set(go value)", "both-go-value"},
				{set[0], parsed[1], "Set(go value)", "Parse(text)", "evaluator"},
				{parsed[0], set[1], "Parse(text)", "Set(go value)", "garbler"},
			}
			for _, rn := range runs {
				sessions++
				c.Eval(fmt.Sprintf("e2e-session|%s|%s|%s", p.name, v, rn.who), true)
				rep := c13E2EReplay{Program: p.name + ": " + strings.ReplaceAll(strings.TrimSpace(p.source()), "\n", " "), Type: typ, Value: v.String(),
					GText: strings.Join(textIn, ","), EText: strings.Join(textIn, ","), GForm: rn.gForm, EForm: rn.eForm, Want: want.String()}
				key := fmt.Sprintf("c13:wires:text-vs-go-value:%s-input:%s:%s", rn.who, typ, cl.class)
				if rn.who == "both-go-value" {
					key = fmt.Sprintf("c13:e2e:go-value-run:%s:%s", typ, cl.class)
				}
				res, err := c13Session(circ, rn.g, rn.e, r)
				if err != nil {
					rep.Got = err.Error()
					c.Fail(key, "the Garbler/Evaluator session fails", rep)
					continue
				}
				if len(res) != len(circ.Outputs) || len(res) == 0 {
					rep.Got = fmt.Sprintf("%d results", len(res))
					c.Fail(key, "wrong number of results", rep)
					continue
				}
				dec, _ := c13Result(new(big.Int).Set(res[0]), circ.Outputs[0].Type)
				got, ok := c13ResultBig(dec)
				if !ok || got.Cmp(want) != 0 {
					rep.Got = fmt.Sprint(dec)
					rep.Detail = fmt.Sprintf("the %s's input was given as %s; the big.Int passed to the protocol was %s", rn.who, map[bool]string{true: "text", false: "Go value"}[rn.who != "both-go-value"], map[string]*big.Int{"both-go-value": rn.e, "evaluator": rn.e, "garbler": rn.g}[rn.who])
					c.Fail(key, "the protocol run with the input in this form does not give the reference result (the consumer does not read the same bits from the text form as from the Go-value form)", rep)
				}
			}
		}
	}
	c.Note("end-to-end layer: %d Garbler/Evaluator sessions over p2p.Pipe with CO OT", sessions)
	_ = mpc.Result
}
