package main

// c04long.go — C04, LONG streaming sessions (door 22-24 of notes/C04-findings.md).
//
// The property quantifies over ALL programs and histories; the theorem C04_stream needs one thing of
// the session: every (label, tweak) pair is hashed at most once, i.e. the gate tweaks are unique over
// the whole session (hypothesis: fewer than 2^32 tweaks).  All other C04 families run sessions of a
// few dozen program steps and a few thousand tweaks; nothing they generate makes a counter, a step
// number, a table index or a wire id pass 2^16 / 2^17.  This family does:
//
//   A1  Compiler.Stream / StreamEvaluator sessions of generated programs with MORE THAN 131072 program
//       steps (a loop over a random block of cheap 1..3-bit statements, unrolled by the compiler);
//   A2  Compiler.Stream sessions in which ONE streamed circuit consumes more than 65536 (and more
//       than 131072) tweaks (binary AND over a > 32768 / > 65536 bit operand);
//   B1  circuit.NewStreaming / Streaming.Garble sessions of more than 131072 single-gate circuits;
//   B2  the same API with circuits of > 32768 AND gates followed by small ones;
//   B0  medium hub sessions (hundreds of single-gate circuits) as correspondence cases of the Coq
//       model (the byte-exact rows; the symbolic R-pairs for the smaller one).
//
// All of them are HUB-DIRECTED: every AND gate of the session has the SAME wire as first input (in
// MPCL: m := uintW(intW(int1(g))) — the sign extension of a one-bit value is pure wire aliasing in
// streaming mode — and every statement is `v = m & (...)`).  The first half-gate row of an AND is
// H(a0, j) ^ H(a1, j) ^ (pb ? R : 0); with one a for the whole session two AND gates are R apart (or
// equal) exactly when they were garbled under the same tweak j and the permute bits of their second
// inputs differ.  So the transcript of a hub session is free of R-pairs iff (up to probability
// 2^-#collisions) the tweaks of all AND gates of the session are pairwise distinct: the existing
// R-pair scan becomes a tweak-uniqueness test over the whole session, independent of the mechanism
// that would break uniqueness (counter width, re-basing per step, per-circuit offsets, a wrap inside
// one circuit, a cache that replays a garbling).  INV(hub) gates (same fixed-key hash input as a
// half gate on the same label) and OR(hub, x) gates are mixed in.
//
// For the Compiler.Stream sessions the loop block is chosen so that the positions of the hub-AND
// steps within one iteration form a DIFFERENCE COVER of the period (every residue is a difference
// of two positions): whatever the distance between two steps that share tweaks, some pair of hub
// ANDs is that far apart, in every iteration.

import (
	"encoding/binary"
	"fmt"
	"math/big"
	"math/bits"
	"os"
	"slices"
	"strings"
	"time"

	"github.com/markkurossi/mpc/circuit"
	"github.com/markkurossi/mpc/compiler"
	"github.com/markkurossi/mpc/compiler/utils"
	"github.com/markkurossi/mpc/env"
	"github.com/markkurossi/mpc/ot"
	"github.com/markkurossi/mpc/p2p"
)

func init() { register("c04long", runC04LongOnly) }

// runC04LongOnly: the long family alone (development aid: `harness c04long -out DIR`).
func runC04LongOnly(c *Ctx) error {
	if f := os.Getenv("C04LONG_SRC"); f != "" {
		b, err := os.ReadFile(f)
		if err != nil {
			return err
		}
		st, err := c04LongSteps(string(b))
		if err != nil {
			return err
		}
		var l []string
		for _, s := range st {
			x := s.op
			if s.hub {
				x += "*"
			}
			l = append(l, x)
		}
		fmt.Println(len(st), strings.Join(l, " "))
		return nil
	}
	return runC04Long(c)
}

// ---- the every-offset scan for transcripts of many megabytes

// scanRBig returns what scanR returns (offsets of 16-byte windows equal to R; pairs of offsets
// j < i whose windows differ by R, j the FIRST offset of its window value), for every byte offset,
// in 8 bytes per offset instead of a hash map entry per offset.  Pass 1 fingerprints every window
// modulo "xor R" (w and w^R have the same canonical form), sorts the fingerprints and keeps those
// that occur at least twice; pass 2 runs the exact scan on the windows with such a fingerprint.
func scanRBig(stream []byte, r ot.Label) (self []int, pairs [][2]int) {
	n := len(stream) - 15
	if n <= 0 {
		return
	}
	rb := labelBytes(r)
	rhi, rlo := binary.BigEndian.Uint64(rb[0:8]), binary.BigEndian.Uint64(rb[8:16])
	// the highest set bit of R decides which of w, w^R is canonical
	var mhi, mlo uint64
	if rhi != 0 {
		mhi = 1 << (63 - bits.LeadingZeros64(rhi))
	} else if rlo != 0 {
		mlo = 1 << (63 - bits.LeadingZeros64(rlo))
	}
	fp := func(i int) uint64 {
		hi, lo := binary.BigEndian.Uint64(stream[i:]), binary.BigEndian.Uint64(stream[i+8:])
		if hi&mhi != 0 || lo&mlo != 0 {
			hi ^= rhi
			lo ^= rlo
		}
		x := hi*0x9E3779B97F4A7C15 ^ bits.RotateLeft64(lo*0xC2B2AE3D27D4EB4F, 31)
		x ^= x >> 29
		x *= 0xBF58476D1CE4E5B9
		x ^= x >> 32
		return x
	}
	fps := make([]uint64, n)
	for i := range fps {
		fps[i] = fp(i)
	}
	slices.Sort(fps)
	dup := make(map[uint64]struct{})
	for i := 1; i < n; i++ {
		if fps[i] == fps[i-1] {
			dup[fps[i]] = struct{}{}
		}
	}
	fps = nil
	seen := make(map[[16]byte]int)
	var w, t [16]byte
	for i := 0; i < n; i++ {
		copy(w[:], stream[i:i+16])
		if w == rb {
			self = append(self, i)
		}
		if _, ok := dup[fp(i)]; !ok {
			continue
		}
		for k := 0; k < 16; k++ {
			t[k] = w[k] ^ rb[k]
		}
		if j, ok := seen[t]; ok {
			pairs = append(pairs, [2]int{j, i})
		}
		if _, ok := seen[w]; !ok {
			seen[w] = i
		}
	}
	return
}

// scanRBigSelfCheck: scanRBig and scanR must report the same on a buffer with planted windows
// (R itself, pairs R apart at unaligned offsets, repeated values, a structured stretch).
func scanRBigSelfCheck(r *RNG) error {
	buf := r.Bytes(150000)
	var R ot.Label
	R.SetBytes(r.Bytes(16))
	R = setS(R)
	rb := labelBytes(R)
	for i := 3000; i < 9000; i++ {
		buf[i] = byte(i % 7) // repeating structure: many identical windows
	}
	copy(buf[20001:], rb[:])
	for k, off := range [][2]int{{1003, 77777}, {40000, 40016}, {99991, 120003}, {120003, 140001}} {
		for i := 0; i < 16; i++ {
			buf[off[1]+i] = buf[off[0]+i] ^ rb[i]
		}
		_ = k
	}
	copy(buf[130000:], buf[1003:1019]) // a repeated value whose partner is R apart
	s1, p1 := scanR(buf, R)
	s2, p2 := scanRBig(buf, R)
	if fmt.Sprint(s1, p1) != fmt.Sprint(s2, p2) || len(s1) == 0 || len(p1) < 4 {
		return fmt.Errorf("scanRBig self-check: scanR found %v %v, scanRBig found %v %v", s1, p1, s2, p2)
	}
	return nil
}

// ---- generated programs

type c04Step struct {
	op  string
	hub bool // a binary AND / AND-NOT whose first operand is the hub value m
}

func c04LongSteps(src string) ([]c04Step, error) {
	params := utils.NewParams()
	defer params.Close()
	prog, _, err := compiler.New(params).CompileSSA("c04long", strings.NewReader(src), nil)
	if err != nil {
		return nil, err
	}
	st := make([]c04Step, len(prog.Steps))
	// the hub value: the first operand most binary AND / AND-NOT steps share (m itself, or the
	// temporary of the conversion it was copy-propagated to)
	first := map[string]int{}
	hub := ""
	for i := range prog.Steps {
		in := prog.Steps[i].Instr
		st[i].op = in.Op.String()
		if (st[i].op == "band" || st[i].op == "bclr") && len(in.In) == 2 {
			k := in.In[0].String()
			first[k]++
			if first[k] > first[hub] {
				hub = k
			}
		}
	}
	for i := range prog.Steps {
		in := prog.Steps[i].Instr
		if (st[i].op == "band" || st[i].op == "bclr") && len(in.In) == 2 && in.In[0].String() == hub {
			st[i].hub = true
		}
	}
	return st, nil
}

// c04LongBlock: B random statements over the state variables x, y, z and the accumulator r; at least
// half of them are hub ANDs.
func c04LongBlock(r *RNG, B int) []string {
	vars := []string{"x", "y", "z"}
	var l []string
	for i := 0; i < B; i++ {
		v := vars[r.Intn(3)]
		u := vars[r.Intn(3)]
		for u == v {
			u = vars[r.Intn(3)]
		}
		switch k := r.Intn(24); {
		case k < 5:
			l = append(l, fmt.Sprintf("%s = m & (%s ^ b)", v, v))
		case k < 9:
			l = append(l, fmt.Sprintf("%s = m & (%s ^ %s)", v, v, u))
		case k == 20:
			// hub ANDs in neighbouring steps (small differences of the cover)
			l = append(l, fmt.Sprintf("%s = m & (m & %s)", v, u))
		case k == 21:
			l = append(l, fmt.Sprintf("%s = (m & %s) ^ (m & %s)", v, v, u))
		case k == 22:
			l = append(l, fmt.Sprintf("%s = m & (m &^ %s)", v, u))
		case k == 23:
			l = append(l, fmt.Sprintf("%s = (m & %s) ^ (m & (%s ^ b))", v, u, v))
		case k < 15:
			l = append(l, fmt.Sprintf("r = r ^ %s", v))
		case k < 17:
			l = append(l, fmt.Sprintf("%s = m &^ (%s ^ b)", v, u))
		case k < 19:
			l = append(l, fmt.Sprintf("%s = m | (%s ^ b)", v, u))
		default:
			l = append(l, fmt.Sprintf("%s = m & (%s + 1)", v, v))
		}
	}
	return l
}

func c04LongSource(W, iters int, block []string) string {
	var sb strings.Builder
	fmt.Fprintf(&sb, "package main\n\nfunc main(g uint64, b uint%d) uint%d {\n", W, W)
	fmt.Fprintf(&sb, "\tm := uint%d(int%d(int1(g)))\n", W, W)
	for _, v := range []string{"x", "y", "z", "r"} {
		fmt.Fprintf(&sb, "\tvar %s uint%d\n", v, W)
	}
	fmt.Fprintf(&sb, "\tfor i := 0; i < %d; i++ {\n", iters)
	for _, s := range block {
		sb.WriteString("\t\t" + s + "\n")
	}
	sb.WriteString("\t}\n\treturn r ^ x ^ y ^ z\n}\n")
	return sb.String()
}

type c04LongProg struct {
	src         string
	width       int
	block       []string
	iters       int
	period      int // program steps per loop iteration
	hubPerIter  int // hub-AND steps per iteration
	cover       bool
	steps8      int // steps of the 8-iteration program
	predicted   int // steps predicted for iters iterations (linear in the iteration count)
	triedBlocks int
}

// c04GenLongProgram draws blocks until the hub-AND positions of one iteration form a difference
// cover of the period, then sizes the loop for at least minSteps program steps.
func c04GenLongProgram(r *RNG, W, B, minSteps int) (*c04LongProg, error) {
	p := &c04LongProg{width: W}
	for try := 0; try < 12; try++ {
		p.triedBlocks++
		p.block = c04LongBlock(r, B)
		s7, err := c04LongSteps(c04LongSource(W, 7, p.block))
		if err != nil {
			return nil, fmt.Errorf("generated program does not compile: %v\n%s", err, c04LongSource(W, 7, p.block))
		}
		s8, err := c04LongSteps(c04LongSource(W, 8, p.block))
		if err != nil {
			return nil, err
		}
		per := len(s8) - len(s7)
		if per <= 0 {
			continue
		}
		p.period, p.steps8 = per, len(s8)
		// one period in the middle of the 8-iteration listing, checked to repeat on both sides
		start := len(s8)/2 - per/2
		if start-per < 0 || start+2*per > len(s8) {
			continue
		}
		periodic := true
		var offs []int
		for i := start; i < start+per; i++ {
			if s8[i] != s8[i-per] || s8[i] != s8[i+per] {
				periodic = false
				break
			}
			if s8[i].hub {
				offs = append(offs, i-start)
			}
		}
		if !periodic {
			continue
		}
		p.hubPerIter = len(offs)
		diff := make([]bool, per)
		for _, a := range offs {
			for _, b := range offs {
				diff[((a-b)%per+per)%per] = true
			}
		}
		p.cover = true
		for _, d := range diff {
			if !d {
				p.cover = false
			}
		}
		if p.cover {
			break
		}
	}
	if !p.cover {
		return nil, fmt.Errorf("no block of %d statements whose hub-AND steps form a difference cover found in %d tries", B, p.triedBlocks)
	}
	p.iters = 8 + (minSteps-p.steps8+p.period-1)/p.period
	if p.iters < 8 {
		p.iters = 8
	}
	p.predicted = p.steps8 + (p.iters-8)*p.period
	p.src = c04LongSource(W, p.iters, p.block)
	return p, nil
}

// c04WideSource: ONE streamed circuit consuming more than 2*N tweaks: binary AND of the N-bit hub
// value with the garbler's N-bit input (gate i = AND(hub, g[i])), then small hub ANDs, then (second)
// a wide one again.
func c04WideSource(r *RNG, N int, second bool) string {
	var sb strings.Builder
	fmt.Fprintf(&sb, "package main\n\nfunc main(g uint%d, b uint8) uint8 {\n", N)
	fmt.Fprintf(&sb, "\tm := uint%d(int%d(int1(g)))\n", N, N)
	fmt.Fprintf(&sb, "\ts := uint8(int8(int1(g)))\n")
	fmt.Fprintf(&sb, "\tz := m & g\n")
	sb.WriteString("\tq := s & (uint8(z) ^ b)\n")
	k := r.Range(2, 5)
	for i := 0; i < k; i++ {
		fmt.Fprintf(&sb, "\tq = s & (q ^ uint8(z >> %d))\n", r.Range(1, N-9))
	}
	if second {
		sb.WriteString("\tz = m & (z ^ g)\n")
		for i := 0; i < k; i++ {
			fmt.Fprintf(&sb, "\tq = s & (q ^ uint8(z >> %d))\n", r.Range(1, N-9))
		}
	}
	sb.WriteString("\treturn q ^ uint8(z >> 3)\n}\n")
	return sb.String()
}

// ---- one Compiler.Stream / StreamEvaluator session (CO OT, seeded entropy source)

type c04Sess struct {
	data         []byte
	R            ot.Label
	haveR        bool
	gOT, eOT     *recOT
	gErr, eErr   error
	gVals, eVals []*big.Int
	stalled      bool
	wall         time.Duration
}

func c04RunStream(r *RNG, src string, gIn, eIn []string, maxRead int, timeout time.Duration) *c04Sess {
	s := &c04Sess{}
	t0 := time.Now()
	ga, ea, g2e, _ := newDuplexPair(r, 0)
	gConn, eConn := p2p.NewConn(ga), p2p.NewConn(ea)
	grand := &blockLog{r: r.Fork(), skipKey: true, maxRead: maxRead}
	params := utils.NewParams()
	defer params.Close()
	params.Config = &env.Config{Rand: grand}
	s.gOT = &recOT{OT: ot.NewCO(r.Fork())}
	s.eOT = &recOT{OT: ot.NewCO(r.Fork())}
	type out struct {
		vals []*big.Int
		err  error
	}
	gch, ech := make(chan out, 1), make(chan out, 1)
	go func() {
		defer func() {
			if p := recover(); p != nil {
				gch <- out{nil, fmt.Errorf("panic: %v", p)}
			}
		}()
		_, vals, err := compiler.New(params).Stream(gConn, s.gOT, "c04long", strings.NewReader(src), gIn, nil)
		gch <- out{vals, err}
	}()
	go func() {
		defer func() {
			if p := recover(); p != nil {
				ech <- out{nil, fmt.Errorf("panic: %v", p)}
			}
		}()
		_, vals, err := circuit.StreamEvaluator(eConn, s.eOT, eIn, nil, false)
		ech <- out{vals, err}
	}()
	to := time.After(timeout)
	for got := 0; got < 2 && !s.stalled; {
		select {
		case o := <-gch:
			got++
			s.gVals, s.gErr = o.vals, o.err
			if o.err != nil {
				ga.Close()
				ea.Close()
			}
		case o := <-ech:
			got++
			s.eVals, s.eErr = o.vals, o.err
			if o.err != nil {
				ga.Close()
				ea.Close()
			}
		case <-to:
			s.stalled = true
		}
	}
	ga.Close()
	ea.Close()
	g2e.mu.Lock()
	s.data = append([]byte(nil), g2e.log...)
	g2e.mu.Unlock()
	if len(grand.blocks) > 0 {
		s.R, s.haveR = setS(grand.blocks[0]), true
	}
	s.wall = time.Since(t0)
	return s
}

// c04AnnouncedSteps reads the number of program steps the garbler announced (the uint32 after the
// session key, the two input arguments and the output arguments) from the transcript.
func c04AnnouncedSteps(data []byte) (int, bool) {
	pos := 0
	u32 := func() (int, bool) {
		if pos+4 > len(data) {
			return 0, false
		}
		v := int(binary.BigEndian.Uint32(data[pos:]))
		pos += 4
		return v, true
	}
	skipData := func() bool {
		n, ok := u32()
		if !ok || pos+n > len(data) {
			return false
		}
		pos += n
		return true
	}
	var arg func(depth int) bool
	arg = func(depth int) bool {
		if depth > 8 || !skipData() || !skipData() {
			return false
		}
		if _, ok := u32(); !ok {
			return false
		}
		n, ok := u32()
		if !ok || n > 1<<16 {
			return false
		}
		for i := 0; i < n; i++ {
			if !arg(depth + 1) {
				return false
			}
		}
		return true
	}
	if !skipData() || !arg(0) || !arg(0) {
		return 0, false
	}
	n, ok := u32()
	if !ok || n > 1<<16 {
		return 0, false
	}
	for i := 0; i < n; i++ {
		if !arg(0) {
			return 0, false
		}
	}
	return u32()
}

// c04JudgeStreamSession: the oracle of a completed long Compiler.Stream session.
func c04JudgeStreamSession(c *Ctx, idx int, mode, src, inputs string, s *c04Sess) {
	if s.stalled {
		c.Fail("c04:stream-session:stalled", "streaming session stalled ("+mode+")", c04Replay{Seed: c.Seed, Mode: mode, Case: idx, Program: src[:min(len(src), 1500)], Inputs: inputs})
		return
	}
	if s.gErr != nil || s.eErr != nil {
		c.Fail("c04:stream-session:error", fmt.Sprintf("streaming session failed (%s): %v / %v", mode, s.gErr, s.eErr),
			c04Replay{Seed: c.Seed, Mode: mode, Case: idx, Program: src[:min(len(src), 1500)], Inputs: inputs})
		return
	}
	if !s.haveR {
		c.Fail("c04:stream-session:no-R", "could not observe R ("+mode+")", nil)
		return
	}
	t0 := time.Now()
	self, pairs := scanRBig(s.data, s.R)
	if leaks := otLeaks(s.data, s.R, s.gOT.sent, s.eOT.recv); len(leaks) > 0 {
		c.Fail("c04:streaming:long-session:ot-handoff-leaks-second-label", "a wire offered through the OT also has a label in the clear transcript / a delivered label is R apart from transmitted data",
			c04Replay{Seed: c.Seed, Mode: mode, Case: idx, R: s.R.String(), Detail: strings.Join(leaks, "; "), Program: src[:min(len(src), 1500)], Inputs: inputs})
	}
	c.Note("%s %d: session %.1fs, %d transcript bytes scanned at every offset in %.1fs: %d windows equal R, %d pairs R apart",
		mode, idx, s.wall.Seconds(), len(s.data), time.Since(t0).Seconds(), len(self), len(pairs))
	if len(self) > 0 || len(pairs) > 0 {
		np := len(pairs)
		if np > 20 {
			pairs = pairs[:20]
		}
		c.Fail("c04:streaming:long-session:transcript-leaks-R",
			fmt.Sprintf("the garbler->evaluator transcript of a LONG streaming session (%s) contains R or two 16-byte values differing by R (%d pairs, %d windows equal to R): every AND gate of the session has the same first input wire, so two rows R apart mean that two gates were garbled under the same tweak", mode, np, len(self)),
			c04Replay{Seed: c.Seed, Mode: mode, Case: idx, R: s.R.String(), Offsets: pairs, Self: self, Program: src[:min(len(src), 1500)], Inputs: inputs})
	}
}

// runLongStreamSession (A1): more than minSteps program steps.
func runLongStreamSession(c *Ctx, idx int, minSteps int) error {
	r := c.rng.Fork()
	W := 1 + idx%3
	B := r.Range(36, 48)
	p, err := c04GenLongProgram(r, W, B, minSteps+r.Range(2500, 5000))
	if err != nil {
		return err
	}
	gv := r.U64() | 1 // hub bit 1: the label sent in clear for it is L0 ^ R
	if idx%2 == 1 {
		gv &^= 1
	}
	gIn := []string{fmt.Sprintf("%#x", gv)}
	eIn := []string{fmt.Sprint(r.Intn(1 << W))}
	maxRead := 0
	if idx%2 == 1 {
		maxRead = 32
	}
	s := c04RunStream(r, p.src, gIn, eIn, maxRead, 240*time.Second)
	mode := fmt.Sprintf("long-session:more-than-%d-steps", minSteps)
	c.Hist("mode:stream-session:" + mode)
	c.Eval(fmt.Sprintf("long-session|%d|%d|%s|%s|%s", W, p.iters, strings.Join(p.block, ";"), gIn[0], eIn[0]), true)
	inputs := gIn[0] + "/" + eIn[0]
	desc := fmt.Sprintf("uint%d, loop of %d iterations over a block of %d statements (%d steps per iteration, %d of them hub ANDs at a difference cover of the period; %d blocks tried)",
		W, p.iters, len(p.block), p.period, p.hubPerIter, p.triedBlocks)
	if s.gErr == nil && s.eErr == nil && !s.stalled {
		n, ok := c04AnnouncedSteps(s.data)
		if !ok {
			return fmt.Errorf("%s: cannot read the announced step count from the transcript", mode)
		}
		c.Note("%s %d: %s; %d program steps announced (predicted %d)", mode, idx, desc, n, p.predicted)
		if n <= minSteps {
			return fmt.Errorf("%s: the generated program has only %d steps (predicted %d): the family does not reach its class", mode, n, p.predicted)
		}
		c.Hist(fmt.Sprintf("long-session:steps>%d", (n>>16)<<16))
	}
	// the replay carries the loop block, not 30000 lines
	c04JudgeStreamSession(c, idx, mode, c04LongSource(W, p.iters, p.block), inputs+" | "+desc, s)
	if idx == 0 {
		c.Sample(map[string]interface{}{"mode": mode, "width": W, "iterations": p.iters, "steps_per_iteration": p.period,
			"hub_and_steps_per_iteration": p.hubPerIter, "transcript_bytes": len(s.data), "block": p.block})
	}
	return nil
}

// runWideStreamSession (A2): one circuit with more than minTweaks tweaks.
func runWideStreamSession(c *Ctx, idx int, minTweaks int) error {
	r := c.rng.Fork()
	N := 8 * ((minTweaks/2)/8 + r.Range(8, 80))
	src := c04WideSource(r, N, idx%2 == 0)
	g := new(big.Int).SetBytes(r.Bytes(N / 8))
	g.SetBit(g, 0, uint(1-idx%2)) // the hub bit
	gIn := []string{"0x" + fmt.Sprintf("%0*x", N/4, g)}
	eIn := []string{fmt.Sprint(r.Intn(256))}
	s := c04RunStream(r, src, gIn, eIn, 32*(idx%2), 240*time.Second)
	mode := fmt.Sprintf("long-session:one-circuit-more-than-%d-tweaks", minTweaks)
	c.Hist("mode:stream-session:" + mode)
	c.Eval(fmt.Sprintf("wide-session|%d|%s|%s", N, gIn[0][:20], eIn[0]), true)
	c.Note("%s %d: hub AND over uint%d (%d tweaks in one streamed circuit)", mode, idx, N, 2*N)
	c04JudgeStreamSession(c, idx, mode, src, fmt.Sprintf("%d-bit garbler input %s.../%s", N, gIn[0][:20], eIn[0]), s)
	return nil
}

// ---- hub sessions through the exported Streaming API

// c04HubCircuit: ngates gates over [hub, d data inputs]; every AND / OR has the hub (wire 0) as
// first input, INV gates invert the hub; the second input is the previous gate's output or a data
// input.  The last gate's output is the circuit's output.
func c04HubCircuit(r *RNG, d, ngates int, mixed bool) *circuit.Circuit {
	gates := make([]circuit.Gate, ngates)
	nin := 1 + d
	prev := circuit.Wire(1)
	for i := range gates {
		out := circuit.Wire(nin + i)
		b := prev
		if r.Intn(3) == 0 {
			b = circuit.Wire(1 + r.Intn(d))
		}
		op := circuit.AND
		if mixed {
			switch r.Intn(10) {
			case 0:
				op = circuit.OR
			case 1:
				op = circuit.INV
			case 2:
				op = circuit.XOR
			}
		}
		if op == circuit.INV {
			gates[i] = circuit.Gate{Input0: 0, Output: out, Op: op}
			// an INV of the hub carries no data: keep the chain on the previous value
		} else {
			gates[i] = circuit.Gate{Input0: 0, Input1: b, Output: out, Op: op}
			prev = out
		}
		if op == circuit.XOR {
			gates[i].Input0 = circuit.Wire(1 + r.Intn(d)) // free gate, no hub needed
		}
	}
	if gates[ngates-1].Op == circuit.INV {
		gates[ngates-1] = circuit.Gate{Input0: 0, Input1: prev, Output: circuit.Wire(nin + ngates - 1), Op: circuit.AND}
	}
	return &circuit.Circuit{NumGates: ngates, NumWires: nin + ngates, Gates: gates,
		Inputs:  circuit.IO{{Name: "a", Type: uintInfo(nin)}},
		Outputs: circuit.IO{{Name: "r", Type: uintInfo(1)}}}
}

// c04HubStream: a hub session: sizes[i] gates in circuit i; global wire 0 is the hub, wires 1..ni-1
// data; every circuit reads the hub and d wires assigned earlier and writes one fresh global wire
// (ring > 0: output ids are recycled in a ring of that many ids, as the streamer's allocator does).
func c04HubStream(r *RNG, ni int, sizes []int, mixed bool, ring int) (G, n int, steps []streamStep) {
	next := ni
	assigned := make([]circuit.Wire, 0, ni+len(sizes))
	for i := 1; i < ni; i++ {
		assigned = append(assigned, circuit.Wire(i))
	}
	maxnw := 0
	var single [4]*circuit.Circuit // the single-gate circuits are shared (the streamer caches circuits per instruction)
	for _, sz := range sizes {
		d := 1
		if sz > 1 {
			d = min(ni-1, 6)
		}
		var circ *circuit.Circuit
		if sz == 1 {
			k := 0
			if mixed {
				k = []int{0, 0, 0, 0, 0, 0, 0, 1, 2, 2}[r.Intn(10)]
			}
			if single[k] == nil {
				g := circuit.Gate{Input0: 0, Input1: 1, Output: 2, Op: []circuit.Operation{circuit.AND, circuit.OR, circuit.INV}[k]}
				single[k] = &circuit.Circuit{NumGates: 1, NumWires: 3, Gates: []circuit.Gate{g},
					Inputs:  circuit.IO{{Name: "a", Type: uintInfo(2)}},
					Outputs: circuit.IO{{Name: "r", Type: uintInfo(1)}}}
			}
			circ = single[k]
		} else {
			circ = c04HubCircuit(r, d, sz, mixed)
		}
		var out circuit.Wire
		if ring > 0 {
			out = circuit.Wire(ni + (next-ni)%ring)
		} else {
			out = circuit.Wire(next)
		}
		in := []circuit.Wire{0}
		for i := 0; i < d; i++ {
			// mostly recent values, sometimes a session input; never the wire this circuit writes
			k := len(assigned) - 1 - r.Intn(min(len(assigned), 40))
			if r.Intn(8) == 0 || assigned[k] == out {
				k = r.Intn(min(len(assigned), ni-1))
			}
			in = append(in, assigned[k])
		}
		next++
		if ring == 0 || next-ni <= ring {
			assigned = append(assigned, out)
		}
		if circ.NumWires > maxnw {
			maxnw = circ.NumWires
		}
		steps = append(steps, streamStep{circ, in, []circuit.Wire{out}})
	}
	G = next
	if ring > 0 && next-ni > ring {
		G = ni + ring
	}
	return G, G + maxnw, steps
}

type c04APIRun struct {
	data   []byte
	R      ot.Label
	rd     *blockLog
	stream *circuit.Streaming
	key    []byte
}

// c04GarbleSteps drives circuit.NewStreaming / Streaming.Garble over the steps and returns the bytes written.
func c04GarbleSteps(r *RNG, ni int, steps []streamStep, maxRead int) (*c04APIRun, error) {
	run := &c04APIRun{key: r.Bytes(32), rd: &blockLog{r: r.Fork(), maxRead: maxRead}}
	q := newFragQueue(r.Fork(), 0)
	conn := p2p.NewConn(&duplex{r: newFragQueue(r.Fork(), 0), w: q})
	inputs := make([]circuit.Wire, ni)
	for i := range inputs {
		inputs[i] = circuit.Wire(i)
	}
	stream, err := circuit.NewStreaming(&env.Config{Rand: run.rd}, run.key, inputs, conn)
	if err != nil {
		return nil, err
	}
	run.stream = stream
	for k, s := range steps {
		if err := streamingGarble(stream, k, s.circ, s.in, s.out); err != nil {
			return nil, fmt.Errorf("Streaming.Garble (circuit %d of the session): %v", k, err)
		}
	}
	if err := conn.Flush(); err != nil {
		return nil, err
	}
	deadline := time.Now().Add(20 * time.Second)
	for {
		q.mu.Lock()
		n := len(q.log)
		q.mu.Unlock()
		if uint64(n) >= conn.Stats.Sent.Load() || time.Now().After(deadline) {
			break
		}
		time.Sleep(time.Millisecond)
	}
	q.mu.Lock()
	run.data = append([]byte(nil), q.log...)
	q.mu.Unlock()
	go conn.Close()
	if len(run.rd.blocks) == 0 {
		return nil, fmt.Errorf("NewStreaming drew no label randomness")
	}
	run.R = setS(run.rd.blocks[0])
	return run, nil
}

// runLongStreamAPI (B1, B2): hub sessions with more than 131072 Garble calls / circuits of more
// than 65536 tweaks.  Oracle only (sizes far outside what the extracted model executes).
func runLongStreamAPI(c *Ctx, idx int) error {
	r := c.rng.Fork()
	ni := r.Range(8, 16)
	var sizes []int
	var mode string
	mixed := false
	ring := 0
	switch idx % 4 {
	case 0:
		// more than 2^17 single-gate circuits
		mode = "long-api:more-than-131072-single-gate-circuits"
		sizes = make([]int, 131072+r.Range(300, 3000))
		for i := range sizes {
			sizes[i] = 1
		}
		ring = 4096
	case 1:
		// circuits of more than 65536 tweaks each, small ones in between and after
		mode = "long-api:circuits-of-more-than-65536-tweaks"
		for i := 0; i < r.Range(3, 8); i++ {
			sizes = append(sizes, r.Range(1, 5))
		}
		sizes = append(sizes, 32768+r.Range(40, 2000))
		for i := 0; i < r.Range(20, 60); i++ {
			sizes = append(sizes, r.Range(1, 40))
		}
		sizes = append(sizes, 32768+r.Range(40, 2000))
		for i := 0; i < r.Range(20, 60); i++ {
			sizes = append(sizes, r.Range(1, 40))
		}
	case 2:
		// the same with all tweak-consuming gate kinds mixed (AND 2, OR 1, INV 1 tweaks) and more
		// than 65536 single-gate circuits after a large one
		mode = "long-api:mixed-gate-kinds:more-than-65536-circuits"
		mixed = true
		sizes = append(sizes, 20000+r.Range(0, 3000))
		for i := 0; i < 65536+r.Range(100, 1500); i++ {
			sizes = append(sizes, 1)
		}
		ring = 1024
	default:
		// one circuit of more than 131072 tweaks
		mode = "long-api:one-circuit-more-than-131072-tweaks"
		sizes = append(sizes, r.Range(1, 9), 65536+r.Range(40, 3000))
		for i := 0; i < r.Range(40, 90); i++ {
			sizes = append(sizes, r.Range(1, 30))
		}
	}
	_, _, steps := c04HubStream(r, ni, sizes, mixed, ring)
	t0 := time.Now()
	run, err := c04GarbleSteps(r, ni, steps, 32*(idx%2))
	if err != nil {
		return fmt.Errorf("%s: %v", mode, err)
	}
	tg := time.Since(t0)
	c.Hist("mode:stream-api:" + mode)
	c.Eval(fmt.Sprintf("%s|%d|%x", mode, idx, run.key), true)
	rows, err := parseStreamRows(run.data, steps)
	if err != nil {
		c.Fail("c04:stream-api:parse", "cannot parse the bytes Streaming.Garble wrote ("+mode+"): "+err.Error(), nil)
		return nil
	}
	var slots []ot.Label
	for i := 0; i < ni; i++ {
		slots = append(slots, circuit.LabelForBit(run.stream.GetInput(circuit.Wire(i)), i == 0 || r.Bool()))
	}
	ntw := 0
	for _, row := range rows {
		slots = append(slots, row...)
		switch len(row) {
		case 2:
			ntw += 2
		case 1, 3:
			ntw++
		}
	}
	pairs := slotPairsFast(slots, run.R)
	t1 := time.Now()
	self, bp := scanRBig(run.data, run.R)
	c.Note("%s %d: %d circuits, %d gates with rows, %d tweaks, %d bytes; garbled in %.1fs, scanned at every offset in %.1fs: %d slot pairs, %d windows equal R, %d byte pairs R apart",
		mode, idx, len(steps), len(rows), ntw, len(run.data), tg.Seconds(), time.Since(t1).Seconds(), len(pairs), len(self), len(bp))
	if ntw <= 65536 {
		return fmt.Errorf("%s: the generated session consumes only %d tweaks", mode, ntw)
	}
	c.Hist(fmt.Sprintf("long-api:tweaks>%d", (ntw>>16)<<16))
	if len(pairs) > 0 || len(self) > 0 || len(bp) > 0 {
		nb := len(bp)
		if nb > 12 {
			bp = bp[:12]
		}
		c.Fail("c04:streaming:long-api:values-differ-by-R",
			fmt.Sprintf("a LONG session through circuit.NewStreaming / Streaming.Garble (%s: %d circuits, %d tweaks) contains values that differ by the secret offset R (or R itself): every AND gate of the session has the same first input wire, so two rows R apart mean that two gates were garbled under the same tweak (%d slot pairs listed first, %d byte-offset pairs)", mode, len(steps), ntw, len(pairs), nb),
			c04Replay{Seed: c.Seed, Mode: mode, Case: idx, R: run.R.String(), Offsets: append(pairs, bp...), Self: self,
				Detail: fmt.Sprintf("%d session inputs (wire 0 = hub), circuit sizes %v..., mixed=%v, output ring %d", ni, sizes[:min(len(sizes), 12)], mixed, ring)})
	}
	return nil
}

// runMediumHubAPI (B0): hub sessions of hundreds of single-gate circuits, small enough for the
// extracted Coq model: correspondence cases (runStreamAPIWith) beside the oracle.
func runMediumHubAPI(c *Ctx, idx int) error {
	r := c.rng.Fork()
	ni := r.Range(3, 6)
	n := 200 + r.Intn(60)
	symbolic := true
	if idx%2 == 1 {
		n = 520 + r.Intn(120)
		symbolic = false
	}
	sizes := make([]int, n)
	for i := range sizes {
		sizes[i] = 1
		if r.Intn(25) == 0 {
			sizes[i] = r.Range(2, 6)
		}
	}
	G, nn, steps := c04HubStream(r, ni, sizes, idx%4 >= 2, 0)
	mode := "stream-api-hub-many-circuits"
	return runStreamAPIWith(c, r, idx, mode, ni, G, nn, steps, symbolic)
}

// runC04Long: called from runC04 in every run.
func runC04Long(c *Ctx) error {
	if err := scanRBigSelfCheck(c.rng.Fork()); err != nil {
		return err
	}
	for i := 0; i < c.N(4, 16); i++ {
		if err := runMediumHubAPI(c, i); err != nil {
			return err
		}
	}
	for i := 0; i < c.N(4, 12); i++ {
		if err := runLongStreamAPI(c, i); err != nil {
			return err
		}
	}
	for i := 0; i < c.N(2, 6); i++ {
		steps := []int{131072, 196608, 65536, 262144}[i%4]
		if err := runLongStreamSession(c, i, steps); err != nil {
			return err
		}
	}
	for i := 0; i < c.N(2, 4); i++ {
		if err := runWideStreamSession(c, i, 65536<<(i%2)); err != nil {
			return err
		}
	}
	return nil
}
