package main

// Property C15, door sweep (notes/C15-findings.md, table "Doors"): ways into
// the malicious-mode check that the record/replay sections do not take.
//
//   c15Pipe        the real transport and base OT: ot.NewPipe + ot.NewCO, two
//                  goroutines, a tampering ot.IO wrapper on the sender's end
//                  armed after setup; direct IKNP, COT and ROT.
//   c15Sessions    long-lived wrapper objects: two Send calls on one COT/ROT
//                  (the second batch tampered), shared=true with repeated
//                  Init, n = 0.
//   c15Concurrent  independent sessions in parallel goroutines give the
//                  verdicts of the sequential runs.
// All oracle-only (the transports, the base OT and the wrappers are not modelled).

import (
	"fmt"
	"sync"
	"time"

	"github.com/markkurossi/mpc/ot"
)

// ---------------------------------------------------------------- real transport

// c15TamperIO wraps the sender's end of the pipe; once armed it hands every
// received message to fn (index counted from arming).
type c15TamperIO struct {
	ot.IO
	armed bool
	idx   int
	fn    func(idx int, data []byte, label *ot.Label)
}

func (t *c15TamperIO) ReceiveData() ([]byte, error) {
	d, err := t.IO.ReceiveData()
	if err == nil && t.armed {
		d = append([]byte(nil), d...)
		if t.fn != nil {
			t.fn(t.idx, d, nil)
		}
		t.idx++
	}
	return d, err
}

func (t *c15TamperIO) ReceiveLabel(val *ot.Label, data *ot.LabelData) error {
	err := t.IO.ReceiveLabel(val, data)
	if err == nil && t.armed {
		if t.fn != nil {
			t.fn(t.idx, nil, val)
		}
		t.idx++
	}
	return err
}

type c15PipeResult struct {
	sendErr, recvErr error
	correlated       bool // receiver's labels are the chosen sender labels / satisfy the correlation
	timeout          bool
}

// one session over ot.NewPipe with real CO base OTs.  kind: IKNP | COT | ROT.
// tamper(delta) returns the message rewriting function (delta only for IKNP).
func c15PipeSession(r *RNG, kind string, n int, mk func(delta ot.Label, known bool) func(int, []byte, *ot.Label)) c15PipeResult {
	c0, c1 := ot.NewPipe()
	b := make([]bool, n)
	for i := range b {
		b[i] = r.Bool()
	}
	rs, rr := r.Fork(), r.Fork()
	tio := &c15TamperIO{IO: c0}
	var res c15PipeResult
	var sent []ot.Label
	var delta ot.Label
	wires := make([]ot.Wire, n)
	rcvd := make([]ot.Label, n)
	var wg sync.WaitGroup
	wg.Add(2)
	go func() { // receiver
		defer wg.Done()
		defer c1.Close()
		base := ot.NewCO(rr)
		switch kind {
		case "IKNP":
			if res.recvErr = base.InitReceiver(c1); res.recvErr != nil {
				return
			}
			rcv, err := ot.NewIKNPReceiver(base, c1, rr)
			if err != nil {
				res.recvErr = err
				return
			}
			res.recvErr = rcv.Receive(b, rcvd, true)
		default:
			w := c15NewWrapper(kind, base, &labelLog{r: rr})
			if res.recvErr = w.InitReceiver(c1); res.recvErr != nil {
				return
			}
			res.recvErr = w.Receive(b, rcvd)
		}
	}()
	go func() { // sender
		defer wg.Done()
		defer c0.Close()
		defer func() {
			if e := recover(); e != nil {
				res.sendErr = fmt.Errorf("PANIC: %v", e)
			}
		}()
		base := ot.NewCO(rs)
		switch kind {
		case "IKNP":
			if res.sendErr = base.InitSender(tio); res.sendErr != nil {
				return
			}
			snd, err := ot.NewIKNPSender(base, tio, rs, nil)
			if err != nil {
				res.sendErr = err
				return
			}
			delta = snd.Delta
			tio.fn = mk(delta, true)
			tio.armed = true
			sent, res.sendErr = snd.Send(n, true)
		default:
			if kind == "COT" {
				for i := range wires {
					wires[i] = ot.Wire{L0: c15RandLabel(rs), L1: c15RandLabel(rs)}
				}
			}
			w := c15NewWrapper(kind, base, &labelLog{r: rs})
			if res.sendErr = w.InitSender(tio); res.sendErr != nil {
				return
			}
			tio.fn = mk(ot.Label{}, false)
			tio.armed = true
			res.sendErr = w.Send(wires)
		}
	}()
	done := make(chan struct{})
	go func() { wg.Wait(); close(done) }()
	select {
	case <-done:
	case <-time.After(60 * time.Second):
		res.timeout = true
		return res
	}
	if res.sendErr == nil && res.recvErr == nil {
		res.correlated = true
		for i := 0; i < n; i++ {
			var want ot.Label
			if kind == "IKNP" {
				want = sent[i]
				if b[i] {
					want.Xor(delta)
				}
			} else if b[i] {
				want = wires[i].L1
			} else {
				want = wires[i].L0
			}
			if rcvd[i] != want {
				res.correlated = false
			}
		}
	}
	return res
}

func c15Pipe(c *Ctx) {
	type dev struct {
		name       string
		mustReject bool
		mk         func(n int, r *RNG) func(delta ot.Label, known bool) func(int, []byte, *ot.Label)
	}
	nChunks := func(n int) int { return c15Chunks(n) + 1 }
	devs := []dev{
		{"honest", false, func(n int, r *RNG) func(ot.Label, bool) func(int, []byte, *ot.Label) {
			return func(ot.Label, bool) func(int, []byte, *ot.Label) { return nil }
		}},
		{"tag-mirrored-pair:t0", true, func(n int, r *RNG) func(ot.Label, bool) func(int, []byte, *ot.Label) {
			return func(ot.Label, bool) func(int, []byte, *ot.Label) {
				return func(idx int, d []byte, l *ot.Label) {
					if l != nil && idx == nChunks(n)+2 {
						l.Xor(ot.Label{D0: 1 << 7, D1: 1 << 7})
					}
				}
			}
		}},
		{"tag-single-bit:t1", true, func(n int, r *RNG) func(ot.Label, bool) func(int, []byte, *ot.Label) {
			return func(ot.Label, bool) func(int, []byte, *ot.Label) {
				return func(idx int, d []byte, l *ot.Label) {
					if l != nil && idx == nChunks(n)+3 {
						l.Xor(c15Bit(99))
					}
				}
			}
		}},
		// Delta unknown to the tamperer: all 128 columns of payload row 0 (masked error = Delta != 0)
		{"whole-row-flip", true, func(n int, r *RNG) func(ot.Label, bool) func(int, []byte, *ot.Label) {
			return func(ot.Label, bool) func(int, []byte, *ot.Label) {
				return func(idx int, d []byte, l *ot.Label) {
					if d != nil && idx == 0 {
						w := len(d) / ot.K
						for j := 0; j < ot.K; j++ {
							d[j*w] ^= 1
						}
					}
				}
			}
		}},
		// direct IKNP: Delta is exported, one flip in a selected column of the LAST payload row
		{"single-selected-last-row", true, func(n int, r *RNG) func(ot.Label, bool) func(int, []byte, *ot.Label) {
			return func(delta ot.Label, known bool) func(int, []byte, *ot.Label) {
				if !known {
					return nil
				}
				col := -1
				for j := 0; j < ot.K; j++ {
					if delta.Bit(j) == 1 {
						col = j
					}
				}
				return func(idx int, d []byte, l *ot.Label) {
					if d != nil && idx == c15Chunks(n)-1 && col >= 0 {
						w := len(d) / ot.K
						row := (n - 1) % 512
						d[col*w+row/8] ^= 1 << uint(row%8)
					}
				}
			}
		}},
	}
	for _, kind := range []string{"IKNP", "COT", "ROT"} {
		for _, n := range []int{9, 600} {
			for _, d := range devs {
				if d.name == "single-selected-last-row" && kind != "IKNP" {
					continue
				}
				if n == 600 && d.name != "honest" && d.name != "single-selected-last-row" && kind != "IKNP" {
					continue // CO setup dominates; keep the quick tier short
				}
				r := c.rng.Fork()
				res := c15PipeSession(r, kind, n, d.mk(n, r))
				c.Eval(fmt.Sprintf("pipe|%s|%d|%s", kind, n, d.name), d.name != "honest")
				c.Hist("pipe:" + kind + ":" + d.name)
				rep := map[string]interface{}{"transport": "ot.NewPipe + ot.NewCO", "entry": kind, "n": n, "deviation": d.name,
					"sendErr": fmt.Sprint(res.sendErr), "recvErr": fmt.Sprint(res.recvErr)}
				switch {
				case res.timeout:
					c.Fail("c15:pipe:"+kind+":hang:"+d.name, "session over ot.Pipe did not finish within 60 s", rep)
				case d.mustReject && res.sendErr == nil:
					c.Fail("c15:pipe:"+kind+":deviation-accepted:"+d.name,
						fmt.Sprintf("over ot.Pipe with CO base OTs: %s sender (malicious mode, n=%d) returned nil although the transmitted data were altered (%s)", kind, n, d.name), rep)
				case !d.mustReject && (res.sendErr != nil || res.recvErr != nil):
					c.Fail("c15:pipe:"+kind+":honest-abort", fmt.Sprintf("honest %s session over ot.Pipe failed: send %v / receive %v", kind, res.sendErr, res.recvErr), rep)
				case !d.mustReject && !res.correlated:
					c.Fail("c15:pipe:"+kind+":honest-labels-wrong", fmt.Sprintf("honest %s session over ot.Pipe: receiver labels are not the chosen ones", kind), rep)
				}
			}
		}
	}
}

// ---------------------------------------------------------------- long-lived wrapper objects

// two Send calls on ONE wrapper object (Init once, or twice with shared=true):
// batch 1 honest, batch 2 tampered.  The direct reference is an IKNPSender
// that did a malicious batch of n1 rows first.
func c15Sessions(c *Ctx) {
	type cfg struct {
		kind   string
		shared bool
		n1, n2 int
	}
	cfgs := []cfg{{"COT", false, 9, 13}, {"ROT", true, 256, 100}, {"COT", true, 1, 600}, {"ROT", false, 64, 0}, {"COT", false, 0, 8}}
	for ci, cf := range cfgs {
		r := c.rng.Fork()
		recvSeed, sendSeed, wireSeed := r.U64(), r.U64(), r.U64()
		b1, b2 := c15Choices(r, cf.n1), c15Choices(r, cf.n2)
		base := &c15Base{}
		fail := func(what string) {
			c.Fail("c15:session:"+cf.kind+":honest-abort", what, map[string]interface{}{"cfg": fmt.Sprint(cf)})
		}
		initR := func(w ot.OT, io ot.IO) error {
			if err := w.InitReceiver(io); err != nil {
				return err
			}
			if cf.shared {
				return w.InitReceiver(io)
			}
			return nil
		}
		initS := func(w ot.OT, io ot.IO) error {
			if err := w.InitSender(io); err != nil {
				return err
			}
			if cf.shared {
				return w.InitSender(io)
			}
			return nil
		}
		newW := func(rnd *labelLog, bs ot.OT) ot.OT {
			if cf.kind == "COT" {
				return ot.NewCOT(bs, rnd, true, cf.shared)
			}
			return ot.NewROT(bs, rnd, true, cf.shared)
		}
		mkWires := func(n int, wr *RNG) []ot.Wire {
			ws := make([]ot.Wire, n)
			if cf.kind == "COT" {
				for i := range ws {
					ws[i] = ot.Wire{L0: c15RandLabel(wr), L1: c15RandLabel(wr)}
				}
			}
			return ws
		}
		// receiver pass A: batch 1 until the I/O runs dry
		ioA := &c15DuplexIO{}
		wA := newW(&labelLog{r: NewRNG(recvSeed)}, base)
		if err := initR(wA, ioA); err != nil {
			fail("InitReceiver: " + err.Error())
			continue
		}
		if err := wA.Receive(b1, make([]ot.Label, cf.n1)); err != errC15EOF {
			fail(fmt.Sprintf("Receive batch 1, first pass: %v", err))
			continue
		}
		msgs1 := ioA.out
		// sender: batch 1
		srnd := &labelLog{r: NewRNG(sendSeed)}
		ioS := &c15DuplexIO{in: msgs1}
		wS := newW(srnd, base)
		if err := initS(wS, ioS); err != nil {
			fail("InitSender: " + err.Error())
			continue
		}
		delta := srnd.labels[0]
		wr := NewRNG(wireSeed)
		wires1 := mkWires(cf.n1, wr)
		if err := wS.Send(wires1); err != nil {
			fail("honest Send batch 1: " + err.Error())
			continue
		}
		out1 := ioS.out
		// receiver pass B: batch 1 completes, batch 2 until dry
		rndB := &labelLog{r: NewRNG(recvSeed)}
		ioB := &c15DuplexIO{in: out1}
		wB := newW(rndB, &c15Base{})
		res1 := make([]ot.Label, cf.n1)
		if err := initR(wB, ioB); err != nil {
			fail("InitReceiver: " + err.Error())
			continue
		}
		if err := wB.Receive(b1, res1); err != nil {
			fail("honest Receive batch 1: " + err.Error())
			continue
		}
		for i := range res1 {
			want := wires1[i].L0
			if b1[i] {
				want = wires1[i].L1
			}
			if res1[i] != want {
				c.Fail("c15:session:"+cf.kind+":honest-labels-wrong", fmt.Sprintf("batch 1: receiver label %d is not the chosen one", i), map[string]interface{}{"cfg": fmt.Sprint(cf)})
				break
			}
		}
		res2 := make([]ot.Label, cf.n2)
		if err := wB.Receive(b2, res2); err != errC15EOF {
			fail(fmt.Sprintf("Receive batch 2, first pass: %v", err))
			continue
		}
		run := &c15Run{n: cf.n2, pre: cf.n1, preKind: c15PreMalicious, b: b2, delta: delta, base: base,
			msgs: ioB.out, nPre: len(msgs1), nPay: c15Chunks(cf.n2), nChk: 1, rcvd: res2,
			pos: (cf.n1+7)/8 + 32}
		if cf.n1 == 0 {
			// Send(0, true) still runs the 256-row check batch: a malicious "pre batch" of 0 rows
			run.pre, run.pos = 0, 32
		}
		nl := len(rndB.labels)
		run.b0, run.b1, run.seed = rndB.labels[nl-3], rndB.labels[nl-2], rndB.labels[nl-1]
		run.chi = c15Chi(run.seed, cf.n2+256)
		var pats []*c15Pattern
		pats = append(pats, run.genPatterns(r, c.N(8, 30))...)
		if cf.n2 > 0 {
			pats = append(pats, run.boundaryPatterns(r, 1)[1:]...)
			pats = append(pats, run.multiPatterns(r, 1)...)
		}
		rp := run.responsePatterns(r)
		if k := c.N(12, 60); len(rp) > k {
			rp = rp[:k]
		}
		pats = append(pats, rp...)
		for _, p := range pats {
			msgs := run.tampered(p)
			// direct reference: an IKNPSender that first did the malicious batch of n1 rows
			var derr error
			func() {
				defer func() {
					if e := recover(); e != nil {
						derr = fmt.Errorf("PANIC: %v", e)
					}
				}()
				d := delta
				snd, err := ot.NewIKNPSender(base, &c15PlayIO{msgs: msgs}, r, &d)
				if err != nil {
					derr = err
					return
				}
				if _, err := snd.Send(cf.n1, true); err != nil {
					derr = fmt.Errorf("pre batch: %v", err)
					return
				}
				_, derr = snd.Send(cf.n2, true)
			}()
			io := &c15DuplexIO{in: msgs}
			w := newW(&labelLog{r: NewRNG(sendSeed)}, base)
			var werr error
			sentBefore := 0
			func() {
				defer func() {
					if e := recover(); e != nil {
						werr = fmt.Errorf("PANIC: %v", e)
					}
				}()
				if err := initS(w, io); err != nil {
					werr = fmt.Errorf("InitSender: %v", err)
					return
				}
				wr := NewRNG(wireSeed)
				if err := w.Send(mkWires(cf.n1, wr)); err != nil {
					werr = fmt.Errorf("batch 1: %v", err)
					return
				}
				sentBefore = len(io.out)
				werr = w.Send(mkWires(cf.n2, wr))
			}()
			c.Eval(fmt.Sprintf("session|%v|%s|%s", cf, bitsString(b2), run.patternSX(p).String()), len(p.Flips) > 0 || p.altersResponse())
			c.Hist(fmt.Sprintf("session:%s:shared=%v", cf.kind, cf.shared))
			rep := map[string]interface{}{"cfg": fmt.Sprint(cf), "config": ci, "pattern": *p, "direct": fmt.Sprint(derr), "wrapper": fmt.Sprint(werr), "delta": delta.String()}
			switch {
			case derr != nil && werr == nil:
				c.Fail("c15:session:"+cf.kind+":check-failure-swallowed",
					fmt.Sprintf("second Send on one ot.%s object (shared=%v, batches %d then %d): returned nil although IKNPSender.Send rejects the same messages (%v); class %s flips %v",
						cf.kind, cf.shared, cf.n1, cf.n2, derr, p.Class, p.Flips), rep)
			case derr != nil && len(io.out) > sentBefore:
				c.Fail("c15:session:"+cf.kind+":output-released-after-check-failure", "second Send failed but had already sent data", rep)
			case derr == nil && werr != nil:
				c.Fail("c15:session:"+cf.kind+":spurious-error",
					fmt.Sprintf("second Send on one ot.%s object returned %q although IKNPSender.Send accepts the same messages", cf.kind, werr.Error()), rep)
			}
		}
	}
}

// ---------------------------------------------------------------- concurrency

// independent sessions in parallel goroutines must give the verdicts of the
// same sessions run one after the other (no shared mutable package state)
func c15Concurrent(c *Ctx) {
	const sessions = 6
	type job struct {
		seed uint64
		n    int
	}
	jobs := make([]job, sessions)
	for i := range jobs {
		jobs[i] = job{c.rng.U64(), []int{9, 100, 513, 64, 255, 1025}[i]}
	}
	verdicts := func(j job) string {
		r := NewRNG(j.seed)
		run, err := newC15Run(r, j.n, 0, c15Choices(r, j.n), c15RandLabel(r))
		if err != nil {
			return "setup:" + err.Error()
		}
		out := ""
		pats := run.genPatterns(r, 12)
		pats = append(pats, run.responsePatterns(r)[:8]...)
		for _, p := range pats {
			sent, _, err := run.sender(r, run.tampered(p))
			switch {
			case err != nil:
				out += "R"
			case run.correlationHolds(sent):
				out += "A"
			default:
				out += "a"
			}
		}
		return out
	}
	seq := make([]string, sessions)
	for i, j := range jobs {
		seq[i] = verdicts(j)
	}
	par := make([]string, sessions)
	var wg sync.WaitGroup
	for i, j := range jobs {
		wg.Add(1)
		go func(i int, j job) {
			defer wg.Done()
			defer func() {
				if e := recover(); e != nil {
					par[i] = fmt.Sprintf("PANIC: %v", e)
				}
			}()
			par[i] = verdicts(j)
		}(i, j)
	}
	wg.Wait()
	for i := range jobs {
		c.Eval(fmt.Sprintf("concurrent|%d|%d", jobs[i].seed, jobs[i].n), true)
		c.Hist("concurrent-session")
		if seq[i] != par[i] {
			c.Fail("c15:concurrent:verdicts-differ",
				fmt.Sprintf("session n=%d: verdicts in parallel goroutines %q differ from the sequential run %q", jobs[i].n, par[i], seq[i]),
				map[string]interface{}{"seed": jobs[i].seed, "n": jobs[i].n})
		}
	}
}
