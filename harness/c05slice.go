package main

// Directed program family for the per-instruction circuit cache of
// Program.Stream (cache[instr.StringTyped()]): slicing expressions of
// DIFFERENT lengths over one element type feed the same opcode twice (==, !=,
// dynamic index, copy, loops over slices, one helper inlined at two lengths),
// longer first and shorter first, element types byte / uint16 / uint64 / bool.

import (
	"fmt"
	"strings"
)

type c05SliceCfg struct {
	elem      string // element type
	bits      int
	kind      string // eq | neq | index | copy | loop | helper
	longFirst bool
	l1, l2    [2]int // [from,to) of the short and the long slice
}

func c05SliceSrc(cfg c05SliceCfg) (src string, twoArrays bool) {
	T := cfg.elem
	s1 := fmt.Sprintf("[%d:%d]", cfg.l1[0], cfg.l1[1])
	s2 := fmt.Sprintf("[%d:%d]", cfg.l2[0], cfg.l2[1])
	ord := func(a, b string) string {
		if cfg.longFirst {
			return b + a
		}
		return a + b
	}
	last := "a[7] + b[7]"
	if T == "bool" {
		last = "a[7] != b[7]"
	}
	switch cfg.kind {
	case "eq", "neq":
		op := "=="
		if cfg.kind == "neq" {
			op = "!="
		}
		body := ord(fmt.Sprintf("\tshort := a%s %s b%s\n", s1, op, s1), fmt.Sprintf("\tlong := a%s %s b%s\n", s2, op, s2))
		return fmt.Sprintf("package main\n\nfunc main(a, b [8]%s) (bool, bool, %s) {\n%s\treturn short, long, %s\n}\n", T, T, body, last), true
	case "index":
		n1, n2 := cfg.l1[1]-cfg.l1[0], cfg.l2[1]-cfg.l2[0]
		m := func(n int) int {
			k := 1
			for k*2 <= n {
				k *= 2
			}
			return k - 1
		}
		body := ord(fmt.Sprintf("\ts := a%s\n\tx := s[i & %d]\n", s1, m(n1)), fmt.Sprintf("\tl := a%s\n\ty := l[i & %d]\n", s2, m(n2)))
		return fmt.Sprintf("package main\n\nfunc main(a [8]%s, i uint8) (%s, %s) {\n%s\treturn x, y\n}\n", T, T, T, body), false
	case "copy":
		n1, n2 := cfg.l1[1]-cfg.l1[0], cfg.l2[1]-cfg.l2[0]
		body := fmt.Sprintf("\tvar d1 [%d]%s\n\tvar d2 [%d]%s\n", n1, T, n2, T) +
			ord(fmt.Sprintf("\tcopy(d1, a%s)\n", s1), fmt.Sprintf("\tcopy(d2, a%s)\n", s2))
		return fmt.Sprintf("package main\n\nfunc main(a, b [8]%s) ([%d]%s, [%d]%s, bool) {\n%s\treturn d1, d2, d1 == b%s\n}\n",
			T, n1, T, n2, T, body, s1), true
	case "loop":
		body := "\tvar u1 " + T + "\n\tvar u2 " + T + "\n" +
			ord(fmt.Sprintf("\ts := a%s\n\tfor i := 0; i < len(s); i++ {\n\t\tu1 = u1 ^ s[i]\n\t}\n", s1),
				fmt.Sprintf("\tl := a%s\n\tfor i := 0; i < len(l); i++ {\n\t\tu2 = u2 ^ l[i]\n\t}\n", s2))
		return fmt.Sprintf("package main\n\nfunc main(a, b [8]%s) (%s, %s, bool) {\n%s\treturn u1, u2, a%s == b%s\n}\n", T, T, T, body, s2, s2), true
	default: // helper
		body := ord(fmt.Sprintf("\tshort := same(a%s, b%s)\n", s1, s1), fmt.Sprintf("\tlong := same(a%s, b%s)\n", s2, s2))
		return fmt.Sprintf("package main\n\nfunc same(x, y []%s) bool {\n\treturn x == y\n}\n\nfunc main(a, b [8]%s) (bool, bool) {\n%s\treturn short, long\n}\n",
			T, T, body), true
	}
}

// c05SlicePrograms: per run a handful of configurations.
func c05SlicePrograms(c *Ctx) []c05Prog {
	r := c.rng.Fork()
	elems := []struct {
		name string
		bits int
	}{{"byte", 8}, {"uint16", 16}, {"uint64", 64}, {"bool", 1}}
	kinds := []string{"eq", "index", "neq", "helper", "loop", "copy"}
	n := c.N(8, 48)
	var progs []c05Prog
	for i := 0; i < n; i++ {
		e := elems[(i+r.Intn(2))%len(elems)]
		kind := kinds[i%len(kinds)]
		if e.name == "bool" && (kind == "loop") {
			kind = "eq"
		}
		cfg := c05SliceCfg{elem: e.name, bits: e.bits, kind: kind, longFirst: (i/len(kinds)+r.Intn(2))%2 == 1}
		// a short and a long slice of different lengths
		n1 := 1 + r.Intn(2)
		f1 := r.Intn(8 - n1)
		n2 := 4 + r.Intn(3)
		f2 := r.Intn(8 - n2 + 1)
		cfg.l1, cfg.l2 = [2]int{f1, f1 + n1}, [2]int{f2, f2 + n2}
		src, two := c05SliceSrc(cfg)
		// inputs: b equals a except in one or two elements (so that comparisons
		// are sensitive to exactly which wires are read)
		a := make([]uint64, 8)
		b := make([]uint64, 8)
		mask := uint64(1)<<uint(e.bits) - 1
		if e.bits == 64 {
			mask = ^uint64(0)
		}
		for j := range a {
			a[j] = r.U64() & mask
			b[j] = a[j]
		}
		for q := 0; q < 1+r.Intn(2); q++ {
			j := r.Intn(8)
			b[j] = (b[j] + 1 + r.U64()%3) & mask
		}
		hexArr := func(v []uint64) string {
			if e.bits == 1 {
				var x uint64
				for j, bit := range v {
					x |= (bit & 1) << uint(j)
				}
				return fmt.Sprintf("0x%02x", x)
			}
			var sb strings.Builder
			sb.WriteString("0x")
			for j := len(v) - 1; j >= 0; j-- {
				fmt.Fprintf(&sb, "%0*x", e.bits/4, v[j])
			}
			return sb.String()
		}
		p := c05Prog{src: src, g: []string{hexArr(a)}, feat: map[string]int{"slice-lengths:" + kind + ":" + e.name: 1}, nstmts: 4}
		if two {
			p.e = []string{hexArr(b)}
		} else {
			p.e = []string{fmt.Sprint(r.Intn(8))}
		}
		progs = append(progs, p)
	}
	return progs
}
