module verifharness

go 1.25.0

require github.com/markkurossi/mpc v0.0.0

require (
	github.com/markkurossi/crypto v0.0.0-20240520115340-daed3f9a1082 // indirect
	github.com/markkurossi/tabulate v0.0.0-20251126123558-a08056f6160f // indirect
	github.com/markkurossi/text v0.0.0-20250315092940-9a5813bf8efa // indirect
	golang.org/x/text v0.32.0 // indirect
)

replace github.com/markkurossi/mpc => /repo
