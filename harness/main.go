// Command verifharness runs markkurossi/mpc (the tree at /repo, as it is now)
// on generated cases and records, per property, (a) the model input and the
// implementation's projected observable as s-expressions (cases.txt), (b) the
// verdicts of the implementation-side property oracle (oracle.jsonl) and
// (c) generator statistics (stats.json).
package main

import (
	"bufio"
	"encoding/json"
	"flag"
	"fmt"
	"os"
	"path/filepath"
	"sort"
	"strings"
)

// Ctx is what a property runner gets.
type Ctx struct {
	Seed     uint64
	Tier     string
	OutDir   string
	Replay   string
	rng      *RNG
	cases    *bufio.Writer
	casesF   *os.File
	oracleF  *os.File
	nCases   int
	nOracle  int
	distinct map[uint64]bool
	nontriv  int
	hist     map[string]int
	samples  []interface{}
	notes    []string
	nEval    int
}

type runner func(c *Ctx) error

var registry = map[string]runner{}

func register(name string, r runner) { registry[name] = r }

// Thorough reports whether the thorough tier was requested.
func (c *Ctx) Thorough() bool { return c.Tier == "thorough" }

// N picks a case count by tier.
func (c *Ctx) N(quick, thorough int) int {
	if c.Thorough() {
		return thorough
	}
	return quick
}

// Case records one correspondence case: model input and implementation observable.
func (c *Ctx) Case(input, observed SX) {
	c.cases.WriteString(input.String())
	c.cases.WriteByte('\t')
	c.cases.WriteString(observed.String())
	c.cases.WriteByte('\n')
	c.nCases++
}

// Eval counts one evaluation; key identifies the case for distinctness;
// nontrivial by the property's stated rule.
func (c *Ctx) Eval(key string, nontrivial bool) {
	c.nEval++
	h := fnv64(key)
	if nontrivial && !c.distinct[h] {
		c.distinct[h] = true
		c.nontriv++
	}
}

// Hist increments a generator histogram bucket.
func (c *Ctx) Hist(bucket string) { c.hist[bucket]++ }

// Sample keeps up to 5 sample cases for the evidence file.
func (c *Ctx) Sample(v interface{}) {
	if len(c.samples) < 5 {
		c.samples = append(c.samples, v)
	}
}

// Note adds a free-text note to stats.
func (c *Ctx) Note(format string, a ...interface{}) {
	c.notes = append(c.notes, fmt.Sprintf(format, a...))
}

// Fail records a property-oracle failure on the implementation.  key is the
// finding key matched against known_findings.json; replay is everything
// needed to reproduce the single case.
func (c *Ctx) Fail(key, what string, replay interface{}) {
	rec := map[string]interface{}{"key": key, "what": what, "replay": replay}
	b, _ := json.Marshal(rec)
	c.oracleF.Write(b)
	c.oracleF.Write([]byte("\n"))
	c.nOracle++
}

func fnv64(s string) uint64 {
	h := uint64(14695981039346656037)
	for i := 0; i < len(s); i++ {
		h ^= uint64(s[i])
		h *= 1099511628211
	}
	return h
}

func main() {
	if len(os.Args) < 2 {
		var names []string
		for k := range registry {
			names = append(names, k)
		}
		sort.Strings(names)
		fmt.Fprintf(os.Stderr, "usage: harness <%s> -seed N -tier quick|thorough -out DIR\n", strings.Join(names, "|"))
		os.Exit(2)
	}
	name := os.Args[1]
	if name == "gen" {
		os.Exit(runGen(os.Args[2:]))
	}
	fs := flag.NewFlagSet(name, flag.ExitOnError)
	seed := fs.Uint64("seed", 1, "seed")
	tier := fs.String("tier", "quick", "tier")
	out := fs.String("out", ".", "output directory")
	replay := fs.String("replay", "", "replay file")
	fs.Parse(os.Args[2:])
	r, ok := registry[name]
	if !ok {
		fmt.Fprintf(os.Stderr, "unknown property runner %q\n", name)
		os.Exit(2)
	}
	ctx := &Ctx{Seed: *seed, Tier: *tier, OutDir: *out, Replay: *replay,
		rng: NewRNG(*seed), distinct: map[uint64]bool{}, hist: map[string]int{}}
	os.MkdirAll(*out, 0o755)
	var err error
	ctx.casesF, err = os.Create(filepath.Join(*out, "cases.txt"))
	if err != nil {
		panic(err)
	}
	ctx.cases = bufio.NewWriterSize(ctx.casesF, 1<<20)
	ctx.oracleF, err = os.Create(filepath.Join(*out, "oracle.jsonl"))
	if err != nil {
		panic(err)
	}
	runErr := r(ctx)
	ctx.cases.Flush()
	ctx.casesF.Close()
	ctx.oracleF.Close()
	stats := map[string]interface{}{
		"evaluations":         ctx.nEval,
		"distinct_nontrivial": ctx.nontriv,
		"cases":               ctx.nCases,
		"oracle_failures":     ctx.nOracle,
		"histogram":           ctx.hist,
		"samples":             ctx.samples,
		"notes":               ctx.notes,
	}
	if runErr != nil {
		stats["error"] = runErr.Error()
	}
	b, _ := json.MarshalIndent(stats, "", " ")
	os.WriteFile(filepath.Join(*out, "stats.json"), b, 0o644)
	if runErr != nil {
		fmt.Fprintf(os.Stderr, "harness error: %v\n", runErr)
		os.Exit(3)
	}
}
