package main

// c02live.go — correspondence for the TERMINATION half of C02 (DESIGN C02,
// Proto/Live.v): for a real Garbler/Evaluator session, the sequence of flush
// segments the transport sees must be the one the communication skeleton
// extracted from the source (gen_skel.go) allows for that circuit.
//
// c02Live runs one more real session of the given circuit/inputs/OT kind over
// an instrumented in-memory transport that logs every Write of both directions
// in one global order (each Conn.Flush with a non-empty buffer is exactly one
// Write, p2p/protocol.go), and
//
//   - instantiates the skeleton extracted from $VERIF_REPO's CURRENT source with
//     the circuit's environment (gates, rows per gate, n0, n1, outputs, OT batch
//     and chunk counts) and runs it deterministically (garbler until it blocks,
//     evaluator until it blocks, ...; no automatic flush) to PREDICT the flush
//     segments as (direction, number of messages);
//   - parses each direction's byte stream along the predicted message kinds
//     (Uint32 = 4 bytes, Label = 16, Byte = 1, Data = 4-byte length + payload;
//     payload sizes are data dependent — EC coordinates, RSA values, the
//     result — and are read from the stream, not predicted), requires that the
//     stream is consumed exactly, and maps every Write boundary to a message
//     boundary: OBSERVED = (direction, number of messages) per Write in global
//     order.  When a Write came within 16 bytes of p2p.writeBufSize (Conn may
//     have flushed on its own) consecutive Writes of one direction are merged
//     into turns on both sides before comparing;
//   - fails the oracle (c02live:...) when the session stalls, the stream does
//     not parse, or observed differs from predicted;
//   - emits the case (99 kind counts nested-counts branches maxwrite) -> (1 mode
//     segments) for the Coq model entry run_c02live (Proto/RunC02Live.v), which
//     recomputes the segments from the GENERATED Gen/Skel.v.

import (
	"fmt"
	"math/big"
	"os"
	"strconv"
	"strings"
	"sync"
	"sync/atomic"
	"time"

	"github.com/markkurossi/mpc/circuit"
	"github.com/markkurossi/mpc/env"
	"github.com/markkurossi/mpc/p2p"
)

// ---------------------------------------------------------------- skeleton at run time

var (
	liveOnce sync.Once
	liveRes  *skResult
	liveErr  error
)

func liveSkeleton() (*skResult, error) {
	liveOnce.Do(func() {
		repo := os.Getenv("VERIF_REPO")
		if repo == "" {
			repo = "/repo"
		}
		liveRes, liveErr = skExtractAll(repo)
	})
	return liveRes, liveErr
}

var liveKindIndex = map[string]int{"co": 0, "rsa": 1, "cot": 2, "cot-malicious": 3}

// liveExpand inlines OT calls (session OT = impl, base OT = CO), fixes the
// malicious flag and substitutes the count label for $n.
func liveExpand(res *skResult, nodes []*skNode, n, impl string, malicious bool, depth int) ([]*skNode, error) {
	if depth > 6 {
		return nil, fmt.Errorf("expansion too deep")
	}
	var out []*skNode
	for _, nd := range nodes {
		label := strings.ReplaceAll(nd.Label, "$n", n)
		switch nd.Op {
		case "send", "recv", "flush":
			out = append(out, nd)
		case "loop":
			b, err := liveExpand(res, nd.Body, n, impl, malicious, depth)
			if err != nil {
				return nil, err
			}
			out = append(out, &skNode{Op: "loop", Label: label, Body: b})
		case "branch":
			a, err := liveExpand(res, nd.Body, n, impl, malicious, depth)
			if err != nil {
				return nil, err
			}
			b, err := liveExpand(res, nd.Else, n, impl, malicious, depth)
			if err != nil {
				return nil, err
			}
			if label == "malicious" {
				if malicious {
					out = append(out, a...)
				} else {
					out = append(out, b...)
				}
			} else {
				out = append(out, &skNode{Op: "branch", Label: label, Body: a, Else: b})
			}
		case "call":
			target := impl
			if nd.Base {
				target = "CO"
			}
			ops, ok := res.Ops[target][nd.CallN]
			if !ok {
				return nil, fmt.Errorf("no skeleton for %s.%s", target, nd.CallN)
			}
			b, err := liveExpand(res, ops, label, target, malicious, depth+1)
			if err != nil {
				return nil, err
			}
			out = append(out, b...)
		default:
			return nil, fmt.Errorf("unclassified node: %s", nd.Msg)
		}
	}
	return out, nil
}

type liveDims struct {
	gates, n0, n1, outputs int
	rows                   []int
	chunkRows, batch       int
}

func (d *liveDims) count(label string, stack []int) (int, error) {
	if v, err := strconv.Atoi(label); err == nil {
		return v, nil
	}
	switch label {
	case "gates":
		return d.gates, nil
	case "n0":
		return d.n0, nil
	case "n1":
		return d.n1, nil
	case "outputs":
		return d.outputs, nil
	case "rows":
		if len(stack) < 1 || stack[0] >= len(d.rows) {
			return 0, fmt.Errorf("rows outside a gate loop")
		}
		return d.rows[stack[0]], nil
	}
	if a, ok := skCallArgs(label, "chunks"); ok && len(a) == 1 {
		x, err := d.count(a[0], stack)
		return (x + d.chunkRows - 1) / d.chunkRows, err
	}
	if a, ok := skCallArgs(label, "steps"); ok && len(a) == 1 {
		x, err := d.count(a[0], stack)
		return (x + d.batch - 1) / d.batch, err
	}
	if a, ok := skCallArgs(label, "batch"); ok && len(a) == 1 {
		x, err := d.count(a[0], stack)
		if len(stack) < 1 {
			return 0, fmt.Errorf("batch outside a steps loop")
		}
		r := x - d.batch*stack[0]
		if r > d.batch {
			r = d.batch
		}
		if r < 0 {
			r = 0
		}
		return r, err
	}
	return 0, fmt.Errorf("no evaluation rule for loop label %q", label)
}

type liveAct struct {
	op   byte // 's' 'r' 'f'
	kind string
}

type liveVec struct {
	label string
	outer []int
	vals  []int
}

type liveEnvRec struct {
	keys    map[string]bool
	scalars []SX
	vecs    map[string]*liveVec
	vecKeys []string
	brs     []SX
}

func (e *liveEnvRec) addCount(label string, stack []int, v int) {
	if len(stack) == 0 {
		k := "c|" + label
		if !e.keys[k] {
			e.keys[k] = true
			e.scalars = append(e.scalars, L(Bytes([]byte(label)), I(v)))
		}
		return
	}
	k := fmt.Sprintf("v|%s|%v", label, stack[1:])
	vec, ok := e.vecs[k]
	if !ok {
		vec = &liveVec{label: label, outer: append([]int(nil), stack[1:]...)}
		e.vecs[k] = vec
		e.vecKeys = append(e.vecKeys, k)
	}
	for len(vec.vals) <= stack[0] {
		vec.vals = append(vec.vals, 0)
	}
	vec.vals[stack[0]] = v
}

func (e *liveEnvRec) vectorsSX() SX {
	var out []SX
	for _, k := range e.vecKeys {
		v := e.vecs[k]
		out = append(out, L(Bytes([]byte(v.label)), Ints(v.outer), Ints(v.vals)))
	}
	return L(out...)
}

func (e *liveEnvRec) addBr(label string, stack []int, v bool) {
	k := fmt.Sprintf("b|%s|%v", label, stack)
	if !e.keys[k] {
		e.keys[k] = true
		e.brs = append(e.brs, L(Bytes([]byte(label)), Ints(stack), Bool(v)))
	}
}

func liveFlatten(nodes []*skNode, stack []int, d *liveDims, rec *liveEnvRec, out *[]liveAct) error {
	for _, nd := range nodes {
		switch nd.Op {
		case "send":
			*out = append(*out, liveAct{'s', nd.Kind})
		case "recv":
			*out = append(*out, liveAct{'r', nd.Kind})
		case "flush":
			*out = append(*out, liveAct{'f', ""})
		case "loop":
			n, err := d.count(nd.Label, stack)
			if err != nil {
				return err
			}
			rec.addCount(nd.Label, stack, n)
			for i := 0; i < n; i++ {
				if err := liveFlatten(nd.Body, append([]int{i}, stack...), d, rec, out); err != nil {
					return err
				}
			}
		case "branch":
			// "reinit": the OT instances of a session are fresh
			if nd.Label != "reinit" {
				return fmt.Errorf("no evaluation rule for branch label %q", nd.Label)
			}
			rec.addBr(nd.Label, stack, false)
			if err := liveFlatten(nd.Else, stack, d, rec, out); err != nil {
				return err
			}
		default:
			return fmt.Errorf("unexpected node %s", nd.Op)
		}
	}
	return nil
}

type liveSeg struct {
	g2e bool
	n   int
}

// livePredict: the deterministic reference run (Live.run_ref)
func livePredict(g, e []liveAct) (segs []liveSeg, finished bool) {
	type side struct {
		prog []liveAct
		pc   int
		buf  int
		ch   []string // outgoing channel (kinds)
		bufk []string
	}
	G, E := &side{prog: g}, &side{prog: e}
	runOne := func(x, y *side, isG bool) bool {
		progressed := false
		for x.pc < len(x.prog) {
			a := x.prog[x.pc]
			switch a.op {
			case 's':
				x.bufk = append(x.bufk, a.kind)
			case 'f':
				if len(x.bufk) > 0 {
					segs = append(segs, liveSeg{isG, len(x.bufk)})
					x.ch = append(x.ch, x.bufk...)
					x.bufk = nil
				}
			case 'r':
				if len(y.ch) == 0 || y.ch[0] != a.kind {
					return progressed
				}
				y.ch = y.ch[1:]
			}
			x.pc++
			progressed = true
		}
		return progressed
	}
	for {
		p1 := runOne(G, E, true)
		p2 := runOne(E, G, false)
		if !p1 && !p2 {
			break
		}
	}
	finished = G.pc == len(G.prog) && E.pc == len(E.prog) && len(G.bufk) == 0 && len(E.bufk) == 0 &&
		len(G.ch) == 0 && len(E.ch) == 0
	return segs, finished
}

func liveMerge(s []liveSeg) []liveSeg {
	var out []liveSeg
	for _, x := range s {
		if len(out) > 0 && out[len(out)-1].g2e == x.g2e {
			out[len(out)-1].n += x.n
		} else {
			out = append(out, x)
		}
	}
	return out
}

// ---------------------------------------------------------------- instrumented transport

type liveWrite struct {
	g2e bool
	n   int
}

type liveNet struct {
	mu     sync.Mutex
	writes []liveWrite
}

type livePipe struct {
	net     *liveNet
	g2e     bool
	cond    *sync.Cond
	buf     []byte
	log     []byte
	closed  bool
	waiting bool
}

func (p *livePipe) Write(b []byte) (int, error) {
	p.net.mu.Lock()
	defer p.net.mu.Unlock()
	if p.closed {
		return 0, fmt.Errorf("closed")
	}
	p.buf = append(p.buf, b...)
	p.log = append(p.log, b...)
	p.net.writes = append(p.net.writes, liveWrite{p.g2e, len(b)})
	p.cond.Broadcast()
	return len(b), nil
}

func (p *livePipe) Read(b []byte) (int, error) {
	p.net.mu.Lock()
	defer p.net.mu.Unlock()
	for len(p.buf) == 0 {
		if p.closed {
			return 0, fmt.Errorf("EOF")
		}
		p.waiting = true
		p.cond.Wait()
		p.waiting = false
	}
	n := copy(b, p.buf)
	p.buf = p.buf[n:]
	return n, nil
}

func (p *livePipe) close() {
	p.net.mu.Lock()
	p.closed = true
	p.cond.Broadcast()
	p.net.mu.Unlock()
}

func (p *livePipe) idle() bool {
	p.net.mu.Lock()
	defer p.net.mu.Unlock()
	return p.waiting && len(p.buf) == 0
}

type liveEnd struct{ r, w *livePipe }

func (e *liveEnd) Read(b []byte) (int, error)  { return e.r.Read(b) }
func (e *liveEnd) Write(b []byte) (int, error) { return e.w.Write(b) }

// ---------------------------------------------------------------- the check

func liveMsgEnds(stream []byte, kinds []string) ([]int, error) {
	ends := make([]int, 0, len(kinds))
	pos := 0
	for i, k := range kinds {
		sz := 0
		switch k {
		case "Uint32":
			sz = 4
		case "Label":
			sz = 16
		case "Byte":
			sz = 1
		case "Uint16":
			sz = 2
		case "Data":
			if pos+4 > len(stream) {
				return nil, fmt.Errorf("message %d (Data): stream ends in the length", i)
			}
			sz = 4 + int(uint32(stream[pos])<<24|uint32(stream[pos+1])<<16|uint32(stream[pos+2])<<8|uint32(stream[pos+3]))
		default:
			return nil, fmt.Errorf("message %d: unknown kind %s", i, k)
		}
		pos += sz
		if pos > len(stream) {
			return nil, fmt.Errorf("message %d (%s): stream too short", i, k)
		}
		ends = append(ends, pos)
	}
	if pos != len(stream) {
		return nil, fmt.Errorf("%d bytes left after the %d predicted messages", len(stream)-pos, len(kinds))
	}
	return ends, nil
}

type c02LiveReplay struct {
	Seed      uint64 `json:"seed"`
	OT        string `json:"ot"`
	Circuit   string `json:"circuit"`
	X         string `json:"x"`
	Y         string `json:"y"`
	Predicted string `json:"predicted_segments"`
	Observed  string `json:"observed_segments"`
	Detail    string `json:"detail"`
}

func liveSegString(s []liveSeg) string {
	var sb strings.Builder
	for _, x := range s {
		if x.g2e {
			fmt.Fprintf(&sb, "G>%d ", x.n)
		} else {
			fmt.Fprintf(&sb, "E>%d ", x.n)
		}
	}
	return strings.TrimSpace(sb.String())
}

// c02Live: see the file comment.  Call it from runC02 for every session:
//
//	c02Live(c, circ, x, y, kind, r.Fork())
func c02Live(c *Ctx, circ *circuit.Circuit, x, y []bool, kind otMaker, r *RNG) {
	// once per run: a session whose first flight exceeds p2p.writeBufSize, so that Conn flushes on its
	// own (the schedule choice of the model) and the comparison is made on turns
	liveBigOnce.Do(func() {
		rb := r.Fork()
		big := GenCircuit(rb, GenOpts{MinIn: 4, MaxIn: 12, MinGates: 3600, MaxGates: 4000, MaxOut: 9, TwoParty: true})
		bx := make([]bool, int(big.Inputs[0].Type.Bits))
		by := make([]bool, int(big.Inputs[1].Type.Bits))
		for k := range bx {
			bx[k] = rb.Bool()
		}
		for k := range by {
			by[k] = rb.Bool()
		}
		c.Hist("live:circuit-exceeding-write-buffer")
		c02LiveOne(c, big, bx, by, otKinds[1], rb.Fork())
	})
	c02LiveOne(c, circ, x, y, kind, r)
}

var liveBigOnce sync.Once

func c02LiveOne(c *Ctx, circ *circuit.Circuit, x, y []bool, kind otMaker, r *RNG) {
	rp := c02LiveReplay{Seed: c.Seed, OT: kind.name, Circuit: circuitText(circ), X: bitsString(x), Y: bitsString(y)}
	fail := func(key, detail string) {
		rp.Detail = detail
		c.Fail("c02live:"+kind.name+":"+key, key+": "+detail, rp)
	}
	res, err := liveSkeleton()
	if err != nil {
		fail("skeleton-extraction", err.Error())
		return
	}
	if len(res.Errs) > 0 {
		fail("skeleton-unclassified", strings.Join(res.Errs, "; "))
		return
	}
	impl := map[string]string{"co": "CO", "rsa": "RSA", "cot": "COT", "cot-malicious": "COT"}[kind.name]
	mal := kind.name == "cot-malicious"
	gs, err1 := liveExpand(res, res.Garbler, "", impl, mal, 0)
	es, err2 := liveExpand(res, res.Evaluator, "", impl, mal, 0)
	if err1 != nil || err2 != nil {
		fail("skeleton-expansion", fmt.Sprint(err1, err2))
		return
	}
	d := &liveDims{gates: circ.NumGates, n0: int(circ.Inputs[0].Type.Bits), n1: int(circ.Inputs[1].Type.Bits),
		outputs: circ.Outputs.Size(), chunkRows: int(res.ChunkRows), batch: int(res.BatchSize)}
	for _, g := range circ.Gates {
		switch g.Op {
		case circuit.AND:
			d.rows = append(d.rows, 2)
		case circuit.OR:
			d.rows = append(d.rows, 3)
		case circuit.INV:
			d.rows = append(d.rows, 1)
		default:
			d.rows = append(d.rows, 0)
		}
	}
	rec := &liveEnvRec{keys: map[string]bool{}, vecs: map[string]*liveVec{}}
	var ga, ea []liveAct
	if err := liveFlatten(gs, nil, d, rec, &ga); err != nil {
		fail("skeleton-environment", err.Error())
		return
	}
	if err := liveFlatten(es, nil, d, rec, &ea); err != nil {
		fail("skeleton-environment", err.Error())
		return
	}
	pred, finished := livePredict(ga, ea)
	rp.Predicted = liveSegString(pred)
	if !finished {
		fail("skeleton-run-stuck", "the reference run of the extracted skeletons does not finish")
		// still run the real session: it shows whether the implementation stalls too
	}

	// the real session
	net := &liveNet{}
	g2e := &livePipe{net: net, g2e: true}
	e2g := &livePipe{net: net, g2e: false}
	g2e.cond = sync.NewCond(&net.mu)
	e2g.cond = sync.NewCond(&net.mu)
	gConn := p2p.NewConn(&liveEnd{r: e2g, w: g2e})
	eConn := p2p.NewConn(&liveEnd{r: g2e, w: e2g})
	var gDone, eDone atomic.Bool
	var gErr, eErr error
	var gRes, eRes []*big.Int
	var wg sync.WaitGroup
	wg.Add(2)
	otG, otE := kind.mk(r.Fork()), kind.mk(r.Fork())
	grand := r.Fork()
	go func() {
		defer wg.Done()
		defer func() {
			if p := recover(); p != nil {
				gErr = fmt.Errorf("panic: %v", p)
			}
			gDone.Store(true)
		}()
		gRes, gErr = circuit.Garbler(&env.Config{Rand: grand}, gConn, otG, circ, bitsToBig(x), false)
	}()
	go func() {
		defer wg.Done()
		defer func() {
			if p := recover(); p != nil {
				eErr = fmt.Errorf("panic: %v", p)
			}
			eDone.Store(true)
		}()
		eRes, eErr = circuit.Evaluator(eConn, otE, circ, bitsToBig(y), false)
	}()
	done := make(chan struct{})
	go func() { wg.Wait(); close(done) }()
	deadline := time.Now().Add(60 * time.Second)
	idle, stalled := 0, false
loop:
	for {
		select {
		case <-done:
			break loop
		case <-time.After(2 * time.Millisecond):
		}
		if (gDone.Load() || e2g.idle()) && (eDone.Load() || g2e.idle()) {
			idle++
		} else {
			idle = 0
		}
		if idle >= 30 || time.Now().After(deadline) {
			stalled = true
			g2e.close()
			e2g.close()
			<-done
			break loop
		}
	}
	// Conn.Close flushes what is left in the write buffers (it must be nothing) and ends the writer goroutines
	gConn.Close()
	eConn.Close()
	g2e.close()
	e2g.close()
	_ = gRes
	_ = eRes
	net.mu.Lock()
	writes := append([]liveWrite(nil), net.writes...)
	glog := append([]byte(nil), g2e.log...)
	elog := append([]byte(nil), e2g.log...)
	net.mu.Unlock()
	c.Hist("live:ot:" + kind.name)
	if stalled {
		var ob []liveSeg
		for _, w := range writes {
			ob = append(ob, liveSeg{w.g2e, w.n})
		}
		rp.Observed = "(bytes) " + liveSegString(ob)
		fail("session stalled", "both parties blocked in Receive on empty connections")
		return
	}
	if gErr != nil || eErr != nil {
		fail("session error", fmt.Sprint(gErr, " / ", eErr))
		return
	}
	if !finished {
		return
	}
	// observed segments in messages
	kindsOf := func(a []liveAct) []string {
		var k []string
		for _, x := range a {
			if x.op == 's' {
				k = append(k, x.kind)
			}
		}
		return k
	}
	gEnds, err := liveMsgEnds(glog, kindsOf(ga))
	if err != nil {
		fail("stream-does-not-parse", "garbler->evaluator: "+err.Error())
		return
	}
	eEnds, err := liveMsgEnds(elog, kindsOf(ea))
	if err != nil {
		fail("stream-does-not-parse", "evaluator->garbler: "+err.Error())
		return
	}
	maxw := 0
	for _, w := range writes {
		if w.n > maxw {
			maxw = w.n
		}
	}
	merged := int64(maxw)+16 >= res.WriteBufSize
	if merged {
		var mw []liveWrite
		for _, w := range writes {
			if len(mw) > 0 && mw[len(mw)-1].g2e == w.g2e {
				mw[len(mw)-1].n += w.n
			} else {
				mw = append(mw, w)
			}
		}
		writes = mw
		pred = liveMerge(pred)
		c.Hist("live:merged-into-turns")
	}
	var obs []liveSeg
	gpos, epos, gi, ei := 0, 0, 0, 0
	for k, w := range writes {
		pos, idx, ends := &gpos, &gi, gEnds
		if !w.g2e {
			pos, idx, ends = &epos, &ei, eEnds
		}
		*pos += w.n
		cnt := 0
		for *idx < len(ends) && ends[*idx] <= *pos {
			*idx++
			cnt++
		}
		if (*idx == 0 && *pos != 0) || (*idx > 0 && ends[*idx-1] != *pos) {
			fail("write-splits-a-message", fmt.Sprintf("write #%d of %d bytes ends inside a message", k, w.n))
			return
		}
		obs = append(obs, liveSeg{w.g2e, cnt})
	}
	rp.Observed = liveSegString(obs)
	if liveSegString(obs) != liveSegString(pred) {
		fail("segments-differ", "the flush segments on the wire are not the ones the extracted skeleton predicts")
		return
	}
	c.Eval(fmt.Sprintf("live|%s|%s|%s|%s", circuitText(circ), bitsString(x), bitsString(y), kind.name), len(obs) > 3)
	c.Hist(fmt.Sprintf("live:segments:%d", len(obs)))
	// the case for the Coq model
	var segSX []SX
	for _, s := range obs {
		segSX = append(segSX, L(Bool(s.g2e), I(s.n)))
	}
	in := L(I(99), I(liveKindIndex[kind.name]), L(rec.scalars...), rec.vectorsSX(), L(rec.brs...), I(maxw))
	c.Case(in, L(Bool(true), Bool(merged), L(segSX...)))
}
